"""Per-property check specifications: which engine batches run, with how many runs per tier.

runs = total simulated runs of the batch (spread over the worker processes);
budget = wall-clock cap per worker in seconds (a watchdog, not the normal stop condition).
"""

REAL_ALL = "onflow/crypto Go and C code of the scratch copy of /repo's working tree (unmodified for the network engines)"

DKG_REAL = ["NewFeldmanVSS / NewFeldmanVSSQual / NewJointFeldman instances of every participant incl. the C layer (real code, unmodified)",
            "Byzantine participants are real instances too; only their OUTPUT is mutated",
            "BLS Sign / BLSReconstructThresholdSignature / Verify / Aggregate-/RemoveBLSPublicKeys used by the key-consistency oracles (trusted base)"]
DKG_STUB = ["transport: private channels + reliable broadcast (DKGProcessor implemented by the simulator)", "round clock: NextTimeout/End are called by the simulated timers",
            "Byzantine output mutator and injector", "harness math/big arithmetic for points outside G2 / scalars >= r", "ForceDisqualify issued by the simulator as the 'external' decision"]
DKG_ASSUME = ["reliable authenticated channels: an honest message is delivered exactly once to each addressee within its round; loss, duplication and lateness exist only as Byzantine behaviour",
              "reliable broadcast: every receiver gets the same bytes of a broadcast, broadcasts of one sender are FIFO and land in the same round everywhere",
              "at most t Byzantine participants and at least t+1 honest ones",
              "curve arithmetic, signing and verification of the library are trusted by the key-consistency oracles (properties C01/C04/C12 are not decidable by this technique)"]
PROTO_RULE = ("each run draws protocol, n, t, the Byzantine set (<= t, anywhere), the dealer, a fault budget, unsolicited-action scripts per round, a delivery strategy and "
              "all delivery/timer interleavings from the choice stream; legal events are: start a node, deliver a pending message of round r to a node in round r (broadcasts of one "
              "sender FIFO), inject the next Byzantine action, fire the timer of a node once nothing of its round is pending anywhere. A run is non-trivial if a fault fired or a "
              "non-default scheduling decision was taken; distinct = distinct hash of (configuration, per-delivery (receiver, kind, fault label, round), timer order)")

ENGINE_INFO = {
    "dkgsim": "n real DKG instances over a simulated transport with round timers, Byzantine mutator/injector (proto mode) and arbitrary call histories (chaos mode)",
    "thrnet": "threshold-signing round over a lossy/duplicating/reordering network with Byzantine signers; collectors use the stateful object or the stateless reconstruction; sequential reference model checked call by call",
    "thrconc": "2-4 tasks on one shared threshold-signature object under the seeded statement-level scheduler simrt, porcupine linearizability check, race detector",
    "roconc": "2-4 tasks sharing keys, signatures and hashers, read-only operations only, under simrt with the race detector",
    "prgcrash": "consumer process + simulated checkpoint disk with crash/restart and write faults",
}

CRAFT_RULE = "; mode craft = single-dealer worlds whose HONEST dealer is played by the simulator with a secret polynomial chosen from edge-case families of the group law in the receivers' public-share computation (partial Horner sum equal / opposite to the next coefficient at a chosen participant index, zero middle coefficient, equal / opposite / tiny coefficients, two participants with the same share), all receivers honest, every delivery order of vector and share: no complaint, no callback, and End() returns exactly sk_j = P(j+1), pk_j = P(j+1)*g2, group key a_0*g2 (expected values through DecodePrivateKey(..).PublicKey(), the library's generator multiplication)"

THR_RULE = ("each run draws n (2..12, thorough also 8,9,16,17,24,25,64,65,200,254), t in {1,(n-1)/2,n-1,random}, seed, message, tag, up to 3 Byzantine signers, 1-3 collectors each in a mode "
            "(VerifyAndAdd, VerifyShare+TrustedAdd, blind TrustedAdd, mixed VerifyAndAdd/TrustedAdd per arrival, stateless list), per-message drop/duplicate/out-of-range-origin faults and the complete delivery order from the choice stream; "
            "Byzantine shares: other signer's share, signature of another message, point outside G1, off-curve x, x>=p, cleared compression bit, infinity, negated, lengths 0/47/49, random bytes. "
            "Non-trivial = a fault fired or a non-FIFO delivery was chosen; distinct = distinct hash of (n,t,collector modes, per-delivery (mode, share kind, origin fault))")
THR_REAL = ["BLSThresholdKeyGen, NewBLSThresholdSignatureParticipant/Inspector, SignShare, VerifyShare, TrustedAdd, VerifyAndAdd, HasShare, EnoughShares, ThresholdSignature, VerifyThresholdSignature, BLSReconstructThresholdSignature incl. the C layer (real code, unmodified)"]
THR_STUB = ["network between signers and collectors (drop, duplicate, reorder, origin faults)", "Byzantine signers (harness math/big arithmetic for points outside G1)", "sequential reference model sim/thrmodel (written from thresholdsign.go's documentation)"]

CHECKS = {
    "C06": {
        "batches": [
            {"engine": "thrnet", "mode": "", "runs": {"quick": 40000, "thorough": 700000}, "budget": {"quick": 75, "thorough": 1500}},
            {"engine": "thrnet", "mode": "big", "runs": {"quick": 64, "thorough": 1600}, "budget": {"quick": 60, "thorough": 1500}},
        ],
        "rule": THR_RULE + "; mode big = only the large group sizes (signer sets crossing the 8-indices-per-limb batching of the Lagrange code)",
        "time_unit": "share deliveries to collectors",
        "real": THR_REAL, "stub": THR_STUB,
        "assumptions": ["uniqueness is relative to PublicKey.Verify (C01 is not decidable by this technique)", "validity of a share is known from its label (genuine share of signer k), never recomputed",
                        "key-share consistency uses the library's G2 subtraction and Equals (trusted)"],
        "expected_probes": ["keygen_consistent", "stateful_reconstruction_succeeded", "stateful_reconstruction_rejected_invalid_share", "stateful_not_enough", "stateless_reconstruction_succeeded",
                            "stateless_with_invalid_share", "stateless_bad_signers", "stateless_not_enough", "healed_reconstruction", "subsets_enumerated"],
    },
    "C07": {
        "batches": [
            {"engine": "dkgsim", "mode": "", "runs": {"quick": 32000, "thorough": 700000}, "budget": {"quick": 75, "thorough": 1500}},
            {"engine": "dkgsim", "mode": "adv", "runs": {"quick": 12000, "thorough": 300000}, "budget": {"quick": 45, "thorough": 1200}},
            {"engine": "dkgsim", "mode": "wide", "runs": {"quick": 32, "thorough": 3200}, "budget": {"quick": 60, "thorough": 1500}, "det": False},
            {"engine": "dkgsim", "mode": "big", "runs": {"quick": 16, "thorough": 160}, "budget": {"quick": 40, "thorough": 1500}, "det": False},
            {"engine": "dkgsim", "mode": "mid", "runs": {"quick": 160, "thorough": 8000}, "budget": {"quick": 40, "thorough": 1200}, "det": False},
            {"engine": "dkgsim", "mode": "craft", "runs": {"quick": 6000, "thorough": 150000}, "budget": {"quick": 45, "thorough": 1200}},
        ],
        "rule": PROTO_RULE + "; mode adv = adversarial templates (the single dealer is Byzantine, every Byzantine participant misbehaves systematically per message kind, its vector is mostly held back and sent last in the round); mode wide = single-dealer protocols with n in {128..131,160,200,253,254} and t <= 3 (participant indices beyond 127); mode big = Joint-Feldman with n in 16..32; mode mid = all three protocols with n in 13..24 and any threshold" + CRAFT_RULE,
        "time_unit": "protocol rounds (3 per run), timer events and message deliveries",
        "real": DKG_REAL, "stub": DKG_STUB, "assumptions": DKG_ASSUME,
        "expected_probes": ["dkg_succeeded", "dkg_failed", "jf_failed", "honest_complaint", "threshold_signature_checked", "groupkey_recomputed_from_vectors", "exactly_t_complaints", "t_plus_1_complaints", "vector_late", "vector_malformed_first", "crafted_dealing_accepted"],
    },
    "C08": {
        "batches": [
            {"engine": "dkgsim", "mode": "", "runs": {"quick": 32000, "thorough": 700000}, "budget": {"quick": 60, "thorough": 1500}},
            {"engine": "dkgsim", "mode": "adv", "runs": {"quick": 12000, "thorough": 300000}, "budget": {"quick": 45, "thorough": 1200}},
            {"engine": "dkgsim", "mode": "fvss", "runs": {"quick": 20000, "thorough": 300000}, "budget": {"quick": 30, "thorough": 900}},
            {"engine": "dkgsim", "mode": "mid", "runs": {"quick": 160, "thorough": 8000}, "budget": {"quick": 40, "thorough": 1200}, "det": False},
            {"engine": "dkgsim", "mode": "wide", "runs": {"quick": 32, "thorough": 3200}, "budget": {"quick": 60, "thorough": 1500}, "det": False},
            {"engine": "dkgsim", "mode": "craft", "runs": {"quick": 6000, "thorough": 150000}, "budget": {"quick": 45, "thorough": 1200}},
        ],
        "rule": PROTO_RULE + "; mode adv = adversarial templates (the single dealer is Byzantine, every Byzantine participant misbehaves systematically per message kind, its vector is mostly held back and sent last in the round); mode wide = single-dealer protocols with n in {128..131,160,200,253,254} and t <= 3; mode fvss = plain Feldman VSS worlds only (every order of vector and share deliveries, every malformation kind); mode mid = all three protocols with n in 13..24 and any threshold" + CRAFT_RULE,
        "time_unit": "protocol rounds (3 per run), timer events and message deliveries",
        "real": DKG_REAL, "stub": DKG_STUB,
        "assumptions": DKG_ASSUME + ["must-disqualify expectations are derived from the mutator's labels (which polynomial a vector/share/answer belongs to), never by recomputing curve points"],
        "expected_probes": ["must_disqualify", "fvss_failed", "fvss_keys", "fault_free_run_succeeded", "honest_complaint", "crafted_dealing_accepted"],
    },
    "C09": {
        "batches": [
            {"engine": "dkgsim", "mode": "chaos", "runs": {"quick": 120000, "thorough": 3000000}, "budget": {"quick": 60, "thorough": 1500}},
            {"engine": "thrnet", "mode": "", "runs": {"quick": 16000, "thorough": 400000}, "budget": {"quick": 45, "thorough": 1200}},
            # the same two workloads in a `go build -asan` worker (C heap and Go objects handed to C are address-sanitised)
            {"engine": "dkgsim", "mode": "chaos", "worker": "asan", "build": "asan", "runs": {"quick": 16000, "thorough": 600000}, "budget": {"quick": 30, "thorough": 1200}, "det": False},
            {"engine": "thrnet", "mode": "", "worker": "asan", "build": "asan", "runs": {"quick": 3200, "thorough": 100000}, "budget": {"quick": 30, "thorough": 1200}, "det": False},
            # large groups (signer indices up to 253, thresholds up to n-1) under ASan: index-dependent buffers of the C interpolation code
            {"engine": "thrnet", "mode": "big", "worker": "asan", "build": "asan", "runs": {"quick": 48, "thorough": 1600}, "budget": {"quick": 45, "thorough": 1200}, "det": False},
        ],
        "rule": ("thrnet batch: see C06 (every call on the stateful inspector/participant and the stateless reconstruction runs under recover; shares of length 0/47/49, indices out of range). chaos mode: each run draws protocol, n<=5, t, dealer and a weighted mix of API calls (swarm), then 8..68 (thorough ..158) calls on live instances: deliveries of real messages to nodes in any "
                 "phase, Start, Start with a too short seed (at any time) and a second Start with another valid seed, NextTimeout, End, ForceDisqualify with in/out-of-range indices, handlers with unauthenticated origins {-1,n,255,256,2^31-1,-2^31} "
                 "and raw payloads (mutated real messages, length/tag grammar 0,1,2,exact-1,exact,exact+1,10kB, points outside G2, x>=p). Every call runs under recover. Non-trivial = at least one "
                 "rejected or faulty call; distinct = distinct hash of the (action kind, model phase) sequence"),
        "time_unit": "API calls on DKG instances",
        "real": DKG_REAL, "stub": ["scheduler of API calls", "payload grammar"],
        "assumptions": ["SCOPE: only the history-dependent surfaces of C09 (DKG handlers, lifecycle calls, ForceDisqualify; the stateful threshold inspector is covered by the thrnet batch once registered); stateless decoders/constructors are pure-input questions and are not claimed",
                        "out-of-bounds accesses inside C are visible only in the batches built with `go build -asan` (a smaller share of the runs)"],
        "expected_probes": [],
    },
    "C10": {
        "batches": [
            {"engine": "dkgsim", "mode": "chaos", "runs": {"quick": 150000, "thorough": 3000000}, "budget": {"quick": 60, "thorough": 1500}},
        ],
        "rule": ("chaos mode (see C09; incl. the boundary-configuration runs, whose Start / two timeouts / End are all legal and must be accepted whatever the group size) with the lifecycle oracles: a reference state machine {idle, running(k timeouts), ended} predicts the error class of every call and Running(); "
                 "differential twin: every run with at least one rejected call is executed a second time from the same choice log with the rejected calls left out, and all emitted "
                 "messages, callbacks, error classes and End results must be identical. Non-trivial = at least one rejected call; distinct = distinct hash of the (action, phase, timeouts) sequence"),
        "time_unit": "API calls on DKG instances",
        "real": DKG_REAL, "stub": ["scheduler of API calls", "reference state machine (40 lines)", "twin execution"],
        "assumptions": ["restarting an instance after an accepted End is outside the quantifier and never generated", "Start with a too short seed is modelled as documented: a dealer refuses it with an invalid-input error and stays not running (a later valid Start is accepted), a non-dealer ignores the seed"],
        "expected_probes": ["twin_runs"],
    },
    "C18": {
        "batches": [
            {"engine": "thrconc", "mode": "", "worker": "conc", "runs": {"quick": 60000, "thorough": 1500000}, "budget": {"quick": 75, "thorough": 1500}},
        ],
        "rule": ("each run draws n in 3..6, t, inspector or participant, 2-4 tasks with 2-6 operations each (<= 24 per history) from {TrustedAdd, VerifyAndAdd, HasShare, EnoughShares, VerifyShare, "
                 "VerifyThresholdSignature, SignShare, ThresholdSignature} with genuine shares, another signer's share, non-G1 / bad-header / negated 48-byte shares, duplicates and indices -1 and n; "
                 "the interleaving is chosen by the seed at statement granularity of the instrumented library (random bursts or PCT-style priorities with 1-3 change points), locks are simulated. "
                 "Non-trivial = more context switches than tasks; distinct = distinct hash of (configuration, (task, source line) switch list)"),
        "time_unit": "scheduler steps (yield points passed), context switches, operations",
        "real": ["blsThresholdSignatureInspector/Participant and everything below it: Go code of the scratch copy with a yield inserted before every statement and sync.RWMutex replaced by the simulated lock in front of a real one; C glue files with a yield before every statement (BLST itself runs as atomic steps)"],
        "stub": ["goroutine scheduler (simrt: one task runs at a time, chosen by the seed)", "lock grant order (model lock, writer preference as sync.RWMutex)", "sequential reference model sim/thrmodel used by porcupine"],
        "assumptions": ["races between two C functions are invisible to the Go race detector (they are reachable as schedules through the C-level yields and show up in results only)", "porcupine results 'Unknown' (30 s timeout) are counted as inconclusive, never reported",
                        "validity of shares and the group signature are computed sequentially during set-up"],
        "expected_probes": ["histories_linearizable", "lock_contended", "switch_inside_critical_section"],
    },
    "C19": {
        "batches": [
            {"engine": "roconc", "mode": "", "worker": "conc", "runs": {"quick": 14000, "thorough": 400000}, "budget": {"quick": 75, "thorough": 1500}},
            # the same workload with the pure-Go Keccak / xor helpers (`-tags purego`): the read-only promise holds in every supported build
            {"engine": "roconc", "mode": "", "worker": "conc", "build": "purego", "tags": "purego", "runs": {"quick": 3000, "thorough": 100000}, "budget": {"quick": 40, "thorough": 900}, "det": False},
        ],
        "rule": ("each run draws fresh keys/messages, enables a random subset of the operation kinds (swarm) {KMAC128 ComputeHash on one shared instance, BLS hasher ComputeHash, BLS Sign, Verify (valid and invalid), "
                 "BLSVerifyPOP (package-level hasher), SPOCKVerify, VerifyBLSSignatureOneMessage, VerifyBLSSignatureManyMessages, BatchVerifyBLSSignaturesOneMessage, ECDSA Sign and Verify on P-256 and secp256k1 with per-task hashers}, "
                 "2-4 tasks with 1-4 operations each, and the interleaving at statement granularity of the instrumented library; per run the shared world is drawn from a recipe (3-5 base keys plus keys derived by AggregateBLSPublicKeys / RemoveBLSPublicKeys / BLSThresholdKeyGen, messages and signatures exact-size or sub-slices of one arena, batch lists with a defective couple, key lists with a non-BLS key for the error paths); a second batch runs the same workload built with -tags purego. Non-trivial = more context switches than tasks; "
                 "distinct = distinct hash of (enabled operations, (task, source line) switch list)"),
        "time_unit": "scheduler steps (yield points passed), context switches, operations",
        "real": ["hash/kmac.go, bls.go, bls_multisig.go, spock.go, ecdsa.go and everything below: Go code of the scratch copy with a yield inserted before every statement; the C glue files (bls_core.c, bls12381_utils.c, bls_thresholdsign_core.c, dkg_core.c) with a yield before every statement too (a task can be descheduled inside a C function); BLST itself, golang.org/x/crypto/sha3, crypto/ecdsa and btcec unmodified (atomic steps)"],
        "stub": ["goroutine scheduler (simrt)"],
        "assumptions": ["PrivateKey.PublicKey() (lazily cached, not in the property's list) is called once during set-up, never concurrently",
                        "the Go race detector does not see C memory: races between two C glue functions (static buffers, in-place normalisation) are found through the simulated C-level interleaving and the result / unchanged-argument oracles, not through race reports; code inside BLST and other uninstrumented dependencies runs as atomic steps",
                        "ECDSA signatures are randomised: checked by verification, not by equality"],
        "expected_probes": ["runs_all_results_equal"],
    },
    "C20": {
        "special": "xcfg", "batches": [],
        "k": {"quick": 12, "thorough": 160},
        "rule": ("the transcript program (sim/xcfg) is built from /repo's working tree in 4 configurations {default (ADX), CGO_CFLAGS='-O2 -D__BLST_PORTABLE__', -tags purego, CGO_ENABLED=0 -tags no_cgo (non-BLS sections only)} "
                 "and run over k seeds per section kind: hash/<i> (SHA2, SHA3, Keccak, KMAC128: 22 input sizes around the rate boundaries, one-shot and seeded unaligned incremental writes), prg/<i>, ecdsa/<i> (key derivation, "
                 "encodings, verdicts incl. signatures exported by the default build), bls/<i> (key generation, signatures, PoP, SPoCK, aggregation, multi/batch verification verdicts, decoding of invalid points, threshold "
                 "keygen + reconstruction), dkgsim-C07/<i>, dkgsim-C08/<i>, thrnet-C06/<i> (complete simulated runs: every message byte, callback and key enters the event hash). "
                 "evaluations = section transcripts produced; distinct_nontrivial = distinct sections compared between the default and at least one other configuration"),
        "real": ["the whole module in each build configuration (BLST with and without ADX, amd64 assembly vs pure-Go Keccak and xor helpers, no_cgo stubs)"],
        "stub": ["none inside a configuration; the multi-party sections reuse the dkgsim/thrnet simulators with fixed seeds"],
        "assumptions": ["no schedule or fault is involved: this check uses only the fact that a simulated run is a bit-exact function of its seed", "the -D__BLST_NO_ASM__ variant does not compile on amd64 at the pinned commit and is not part of the claim",
                        "ECDSA signing is randomised: signature bytes are compared through verification verdicts (signatures exported by the default build must verify everywhere)"],
    },
    "C14": {
        "batches": [
            {"engine": "prgcrash", "mode": "", "runs": {"quick": 40000, "thorough": 1500000},
             "budget": {"quick": 120, "thorough": 1500}},
            {"engine": "prgcrash", "mode": "sweep", "runs": {"quick": 64, "thorough": 640},
             "budget": {"quick": 120, "thorough": 1500}},
        ],
        "rule": ("each run draws seed, customizer length, operation mix and fault mix from the choice stream; "
                 "modes: history (Read/UintN/Permutation/SubPermutation/Shuffle/Samples, checkpoint with "
                 "durable/lost/short/stale-tail write, crash = discard generator, restore from disk, re-execute), "
                 "offset sweep (store/restore at EVERY byte offset of a window, 5 read sizes each), constructor/restore "
                 "length validation. A run is non-trivial if it crashed at least once or injected a disk fault or is a "
                 "sweep; distinct = distinct hash of the (operation kind, size class, fault kind) sequence"),
        "time_unit": "keystream bytes produced by the real generator; ops = consuming operations",
        "real": ["random.NewChacha20PRG, Read, UintN, Permutation, SubPermutation, Shuffle, Samples, Store, RestoreChacha20PRG (real code incl. golang.org/x/crypto/chacha20)"],
        "stub": ["checkpoint disk (in-memory, fault injecting)", "crash/restart of the consumer",
                 "reference model: independent RFC 8439 block function in the harness", "never-crashed twin generator (real code)"],
        "assumptions": ["offset after a derived operation (UintN, permutations) is re-synchronised from the byte counter in Store(); it is cross-checked by the next Read against the independent keystream",
                        "stream positions beyond 2^38 bytes are outside the documented range and not explored"],
        "expected_probes": ["restart_from_checkpoint", "restart_from_seed", "restore_mid_block", "damaged_checkpoint_rejected"],
    },
}
