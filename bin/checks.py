"""Per-property check specifications: which engine batches run, with how many runs per tier.

runs = total simulated runs of the batch (spread over the worker processes);
budget = wall-clock cap per worker in seconds (a watchdog, not the normal stop condition).
"""

REAL_ALL = "onflow/crypto Go and C code of the scratch copy of /repo's working tree (unmodified for the network engines)"

ENGINE_INFO = {
    "prgcrash": "consumer process + simulated checkpoint disk with crash/restart and write faults",
}

CHECKS = {
    "C14": {
        "batches": [
            {"engine": "prgcrash", "mode": "", "runs": {"quick": 40000, "thorough": 1500000},
             "budget": {"quick": 120, "thorough": 1500}},
            {"engine": "prgcrash", "mode": "sweep", "runs": {"quick": 64, "thorough": 640},
             "budget": {"quick": 120, "thorough": 1500}},
        ],
        "rule": ("each run draws seed, customizer length, operation mix and fault mix from the choice stream; "
                 "modes: history (Read/UintN/Permutation/SubPermutation/Shuffle/Samples, checkpoint with "
                 "durable/lost/short/stale-tail write, crash = discard generator, restore from disk, re-execute), "
                 "offset sweep (store/restore at EVERY byte offset of a window, 5 read sizes each), constructor/restore "
                 "length validation. A run is non-trivial if it crashed at least once or injected a disk fault or is a "
                 "sweep; distinct = distinct hash of the (operation kind, size class, fault kind) sequence"),
        "time_unit": "keystream bytes produced by the real generator; ops = consuming operations",
        "real": ["random.NewChacha20PRG, Read, UintN, Permutation, SubPermutation, Shuffle, Samples, Store, RestoreChacha20PRG (real code incl. golang.org/x/crypto/chacha20)"],
        "stub": ["checkpoint disk (in-memory, fault injecting)", "crash/restart of the consumer",
                 "reference model: independent RFC 8439 block function in the harness", "never-crashed twin generator (real code)"],
        "assumptions": ["offset after a derived operation (UintN, permutations) is re-synchronised from the byte counter in Store(); it is cross-checked by the next Read against the independent keystream",
                        "stream positions beyond 2^38 bytes are outside the documented range and not explored"],
        "expected_probes": ["restart_from_checkpoint", "restart_from_seed", "restore_mid_block", "damaged_checkpoint_rejected"],
    },
}
