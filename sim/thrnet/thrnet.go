// Package thrnet simulates a threshold-signing round: n participants with keys from
// BLSThresholdKeyGen broadcast their signature shares over a network that drops, duplicates
// and reorders; Byzantine participants send shares of other signers, points outside G1,
// malformed and wrong-length strings, per receiver. Honest collectors feed whatever arrives,
// in arrival order, into the stateful object (VerifyAndAdd / VerifyShare+TrustedAdd / blind
// TrustedAdd) or into the stateless reconstruction (properties C06 and, for the inspector
// surface, C09).
package thrnet

import (
	"sync"
	"bytes"
	"encoding/hex"
	"fmt"
	"runtime/debug"
	"strings"

	crypto "github.com/onflow/crypto"

	"verifsim/choice"
	"verifsim/curve"
	"verifsim/engine"
	"verifsim/thrmodel"
)

type Engine struct{}

func (Engine) Name() string { return "thrnet" }

type collector struct {
	id    int
	mode  int // 0 VerifyAndAdd, 1 VerifyShare+TrustedAdd, 2 blind TrustedAdd, 3 stateless list, 4 mixed
	obj   crypto.ThresholdSignatureInspector
	part  crypto.ThresholdSignatureParticipant
	st    thrmodel.State
	env   *thrmodel.Env
	list  []int // stateless: pool indices in arrival order
	origs []int
	dead  bool
}

var modeName = []string{"VerifyAndAdd", "VerifyShare+TrustedAdd", "TrustedAdd(blind)", "stateless-list", "mixed(VerifyAndAdd|TrustedAdd per arrival)"}

type msg struct {
	from, to int
	share    int
	orig     int // origin as presented by the transport
	label    string
}

type world struct {
	frame []byte // message || share of signer 0 in one buffer (nil: separate allocations)
	c     *choice.Src
	o     engine.Opt
	out   *engine.Out
	n, t  int
	pool  []thrmodel.Share
	env   *thrmodel.Env
	evlog []string
	trace []string
	fp    []string
	gpk   crypto.PublicKey
	pks   []crypto.PublicKey
	sks   []crypto.PrivateKey
	msgB  []byte
	tag   string
}

func (w *world) ev(f string, a ...any) {
	s := fmt.Sprintf(f, a...)
	w.evlog = append(w.evlog, s)
	if w.o.Trace {
		w.trace = append(w.trace, s)
	}
}

func (w *world) viol(prop, oracle, class, f string, a ...any) {
	d := fmt.Sprintf(f, a...)
	w.out.Viols = append(w.out.Viols, engine.Viol{Property: prop, Oracle: oracle, Class: class, Detail: d})
	w.ev("VIOLATION[%s] %s: %s", prop, class, d)
}

func errClass(err error) string {
	switch {
	case err == nil:
		return ""
	case crypto.IsDuplicatedSignerError(err):
		return "duplicate"
	case crypto.IsNotEnoughSharesError(err):
		return "notenough"
	case crypto.IsInvalidSignatureError(err):
		return "invalidsig"
	case crypto.IsInvalidInputsError(err):
		return "input"
	}
	return "other"
}

func panicSite(stack string) string {
	for _, l := range strings.Split(stack, "\n") {
		l = strings.TrimSpace(l)
		if strings.Contains(l, ".go:") && strings.Contains(l, "/repo/") && !strings.Contains(l, "/simrt/") {
			p := l[strings.LastIndex(l, "/")+1:]
			if i := strings.Index(p, " "); i > 0 {
				p = p[:i]
			}
			return p
		}
	}
	return "unknown"
}

// guard runs f under recover; a panic is a violation of C09 (and of the property being run).
func (w *world) guard(what string, f func()) (panicked bool) {
	defer func() {
		if r := recover(); r != nil {
			panicked = true
			loc := panicSite(string(debug.Stack()))
			cls := "panic:threshold:" + loc
			det := fmt.Sprintf("%s panicked: %v at %s", what, r, loc)
			w.viol("C09", "nopanic", cls, "%s", det)
			if w.o.Property != "C09" {
				w.viol(w.o.Property, "nopanic", cls, "%s", det)
			}
		}
	}()
	engine.CurrentCall.Store(what)
	f()
	return
}

// apply performs op on the real object of collector k, normalises the result and checks it
// against the sequential model.
func (w *world) apply(k *collector, o thrmodel.Op) thrmodel.Res {
	var r thrmodel.Res
	var sh crypto.Signature
	if o.Share >= 0 {
		sh = w.pool[o.Share].Bytes
	}
	p := w.guard(fmt.Sprintf("collector %d %s", k.id, o), func() {
		switch o.Name {
		case "TrustedAdd":
			b, err := k.obj.TrustedAdd(o.Orig, sh)
			r = thrmodel.Res{B1: b, Err: errClass(err)}
		case "VerifyAndAdd":
			b1, b2, err := k.obj.VerifyAndAdd(o.Orig, sh)
			r = thrmodel.Res{B1: b1, B2: b2, Err: errClass(err)}
		case "VerifyShare":
			b, err := k.obj.VerifyShare(o.Orig, sh)
			r = thrmodel.Res{B1: b, Err: errClass(err)}
		case "HasShare":
			b, err := k.obj.HasShare(o.Orig)
			r = thrmodel.Res{B1: b, Err: errClass(err)}
		case "EnoughShares":
			r = thrmodel.Res{B1: k.obj.EnoughShares()}
		case "ThresholdSignature":
			s, err := k.obj.ThresholdSignature()
			r = thrmodel.Res{Err: errClass(err)}
			if s != nil {
				r.Sig = hex.EncodeToString(s)
			}
		case "SignShare":
			s, err := k.part.SignShare()
			r = thrmodel.Res{Err: errClass(err), Sig: hex.EncodeToString(s)}
		case "VerifyThresholdSignature":
			var sig crypto.Signature
			switch o.Sig {
			case 0:
				sig, _ = hex.DecodeString(w.env.GroupSig)
			case 1:
				sig = w.pool[0].Bytes
			default:
				sig = []byte{1, 2, 3}
			}
			b, err := k.obj.VerifyThresholdSignature(sig)
			r = thrmodel.Res{B1: b, Err: errClass(err)}
		}
	})
	if p {
		k.dead = true
		return r
	}
	ok, next := k.env.Step(k.st, o, r)
	kind := ""
	if o.Share >= 0 {
		kind = " [" + w.pool[o.Share].Kind + "]"
	}
	w.ev("collector %d (%s): %s%s -> %s", k.id, modeName[k.mode], o, kind, r)
	if !ok {
		w.viol("C06", "seqmodel", "model:"+o.Name+":"+r.Err, "collector %d: %s%s returned %s in model state {%s}, not allowed by the documented sequential semantics",
			k.id, o, kind, r, k.st.Key())
		// C09: invalid input must be REPORTED (typed error / false verdict), not accepted
		badOrig := (o.Name == "TrustedAdd" || o.Name == "VerifyAndAdd" || o.Name == "VerifyShare" || o.Name == "HasShare") && (o.Orig < 0 || o.Orig >= w.n)
		badSig := o.Name == "ThresholdSignature" && r.Sig != "" && r.Sig != w.env.GroupSig
		if r.Err == "" && (badOrig || badSig) {
			w.viol("C09", "invalid-input", "invalid-input-accepted:"+o.Name, "collector %d: %s%s returned %s with a nil error", k.id, o, kind, r)
		}
		k.dead = true
		return r
	}
	k.st = next
	return r
}

func (Engine) Run(c *choice.Src, o engine.Opt) (out engine.Out) {
	out = engine.Out{Params: map[string]any{}, Faults: map[string]int{}, Probes: map[string]int{}, SimTime: map[string]int{}}
	w := &world{c: c, o: o, out: &out}
	defer func() {
		out.Trace = w.trace
		out.EventHash = engine.HexHash(w.evlog)
		out.Fingerprint = engine.HashStrings(w.fp...)
	}()
	w.run()
	return
}

var smallN = []int{0, 0, 3, 6, 6, 5, 4, 3, 2, 2, 1, 1, 1}
var bigN = []int{8, 9, 16, 17, 24, 25, 64, 65, 200, 254}

func (w *world) run() {
	c := w.c
	out := w.out
	if w.o.Mode == "big" || (w.o.Tier == "thorough" && c.Bool(1, 60, "bign?")) {
		w.n = bigN[c.Choose(len(bigN), "bign")]
		if c.Bool(1, 3, "bign.random") {
			w.n = 13 + c.Choose(108, "bign.value") // any size between the small worlds and the listed ones
		}
	} else {
		w.n = c.Weighted(smallN, "n")
	}
	switch c.Choose(4, "tkind") {
	case 0:
		w.t = (w.n - 1) / 2
	case 1:
		w.t = 1
	case 2:
		w.t = w.n - 1
	default:
		w.t = 1 + c.Choose(w.n-1, "t")
	}
	if w.t < 1 {
		w.t = 1
	}
	rnd := c.Sub("inputs")
	seed := rnd.Bytes(32 + rnd.Intn(32))
	w.msgB = rnd.Bytes(rnd.Intn(100))
	w.frame = nil
	if c.Bool(1, 2, "msg.and.share.in.one.frame") {
		// a received frame "message || share": the message's spare capacity IS the share of
		// signer 0 (copied in below)
		w.frame = make([]byte, len(w.msgB)+48+16)
		copy(w.frame, w.msgB)
		w.msgB = w.frame[:len(w.msgB)]
		out.Faults["shape.message_and_share_share_backing_array"]++
	}
	w.tag = fmt.Sprintf("thrnet-%d", rnd.Intn(1000))
	if c.Bool(1, 4, "tag.long?") {
		// domain tags of every length up to a few KMAC blocks (the tag is part of the KMAC key,
		// which is padded to the 168-byte rate: block-aligned and one-off lengths included)
		l := 1 + c.Choose(400, "tag.len")
		for len(w.tag) < l {
			w.tag += "-" + w.tag
		}
		w.tag = w.tag[:l]
		out.Faults["shape.long_domain_tag"]++
	}
	out.Params["n"], out.Params["t"] = w.n, w.t
	w.fp = append(w.fp, fmt.Sprint(w.n, w.t))
	w.ev("threshold world n=%d t=%d", w.n, w.t)

	var err error
	if w.guard("BLSThresholdKeyGen", func() { w.sks, w.pks, w.gpk, err = crypto.BLSThresholdKeyGen(w.n, w.t, seed) }) {
		return
	}
	if err != nil {
		w.viol("C06", "keygen", "keygen.error", "BLSThresholdKeyGen(%d,%d) failed: %v", w.n, w.t, err)
		return
	}
	if !w.checkKeygen() {
		return
	}
	// documented constructor errors (a few per run)
	if c.Bool(1, 8, "ctorerrs") {
		w.ctorErrors(seed)
	}
	hasher := crypto.NewExpandMsgXOFKMAC128(w.tag)
	// the genuine shares
	for i := 0; i < w.n; i++ {
		s, err := w.sks[i].Sign(w.msgB, hasher)
		if err != nil {
			w.viol("C06", "sign", "sign.error", "Sign failed: %v", err)
			return
		}
		if w.frame != nil && i == 0 && len(s) == 48 {
			copy(w.frame[len(w.msgB):], s)
			s = w.frame[len(w.msgB) : len(w.msgB)+48]
		}
		w.pool = append(w.pool, thrmodel.Share{Bytes: s, Kind: "true", TrueOf: i})
	}
	// once per process: the harness' own E1 arithmetic agrees with the library on a genuine
	// share (decompress / re-compress bit-exact, order r, torsion orders)
	e1CheckOnce.Do(func() {
		// on a signature of its own (fresh buffers), not on a share that lives in the run's frame
		probe, err := w.sks[0].Sign([]byte("thrnet e1 self-check"), crypto.NewExpandMsgXOFKMAC128("thrnet-selfcheck"))
		if err != nil {
			e1CheckErr = err
			return
		}
		e1CheckErr = curve.SelfCheckE1(probe)
	})
	if e1CheckErr != nil {
		w.viol("HARNESS", "selfcheck", "selfcheck.e1", "harness E1 arithmetic disagrees with the library: %v", e1CheckErr)
		return
	}
	// the unique group signature, from the first t+1 shares
	var first []crypto.Signature
	var signers []int
	for i := 0; i <= w.t; i++ {
		first = append(first, w.pool[i].Bytes)
		signers = append(signers, i)
	}
	var gsig crypto.Signature
	if w.guard("BLSReconstructThresholdSignature", func() { gsig, err = crypto.BLSReconstructThresholdSignature(w.n, w.t, first, signers) }) {
		return
	}
	if err != nil {
		w.viol("C06", "reconstruct", "reconstruct.error", "reconstruction from t+1 genuine shares failed: %v", err)
		return
	}
	if ok, err := w.gpk.Verify(gsig, w.msgB, hasher); err != nil || !ok {
		w.viol("C06", "reconstruct", "reconstruct.invalid", "signature reconstructed from the genuine shares of signers %v does not verify under the group key", signers)
		return
	}
	w.env = &thrmodel.Env{N: w.n, T: w.t, GroupSig: hex.EncodeToString(gsig)}

	// Byzantine participants and their bad shares
	fmax := w.n - w.t - 1
	f := 0
	if fmax > 0 {
		f = c.Choose(min(fmax, 3)+1, "f")
	}
	byz := map[int]bool{}
	for len(byz) < f {
		// (must terminate under replay, where all remaining draws may be 0)
		i := c.Choose(w.n, "byzidx")
		for byz[i] {
			i = (i + 1) % w.n
		}
		byz[i] = true
	}
	out.Params["byzantine"] = len(byz)
	other, _ := w.sks[0].Sign(append([]byte("other"), w.msgB...), hasher)
	mkBad := func(kind string, from int) int {
		var b []byte
		trueOf := -1
		switch kind {
		case "wrongsigner":
			k := (from + 1 + rnd.Intn(w.n-1)) % w.n
			b, trueOf = w.pool[k].Bytes, k
		case "othermsg":
			b = other
		case "notG1":
			b = curve.G1NonSubgroup(rnd)
		case "offcurve":
			b = curve.G1OffCurve(rnd)
		case "xlarge":
			b = curve.G1XTooLarge(rnd)
		case "badheader":
			b = append([]byte(nil), w.pool[from].Bytes...)
			b[0] &^= 0x80
		case "infinity":
			b = make([]byte, 48)
			b[0] = 0xC0
		case "infinity-noncanonical":
			// the infinity header followed by a non-zero byte (preferably the LAST one)
			b = make([]byte, 48)
			b[0] = 0xC0
			pos := 47
			if rnd.Intn(3) == 0 {
				pos = 1 + rnd.Intn(47)
			}
			b[pos] = byte(1 + rnd.Intn(255))
		case "len0":
			b = []byte{}
		case "nil":
			b = nil // a literally nil share: a "no share" sentinel must not be confused with it
		case "len47":
			b = append([]byte(nil), w.pool[from].Bytes[:47]...)
		case "len49":
			b = append(append([]byte(nil), w.pool[from].Bytes...), 0)
		case "len96":
			b = append(append([]byte(nil), w.pool[from].Bytes...), w.pool[(from+1)%w.n].Bytes...)
		case "pair47_49":
			// alternating lengths that compensate each other in a flattened array
			if from%2 == 0 {
				b = append([]byte(nil), w.pool[from].Bytes[:47]...)
			} else {
				b = append(append([]byte(nil), w.pool[from].Bytes...), 0)
			}
		case "pair0_96":
			if from%2 == 0 {
				b = []byte{}
			} else {
				b = append(append([]byte(nil), w.pool[from].Bytes...), w.pool[(from+1)%w.n].Bytes...)
			}
		case "negated":
			b = append([]byte(nil), w.pool[from].Bytes...)
			b[0] ^= 0x20
		case "torsion":
			// genuine share + point of small prime order of the cofactor part of E1(Fp): on the
			// curve, outside G1, and it still satisfies the signer's pairing equation
			var err error
			b, err = curve.G1PlusTorsion(w.pool[from].Bytes, rnd.Intn(len(curve.SmallPrimesE1)), int64(1+rnd.Intn(2)))
			if err != nil {
				b = curve.G1NonSubgroup(rnd)
			}
		default:
			b = rnd.Bytes(48)
		}
		w.pool = append(w.pool, thrmodel.Share{Bytes: b, Kind: kind, TrueOf: trueOf})
		return len(w.pool) - 1
	}
	badKinds := []string{"wrongsigner", "othermsg", "notG1", "offcurve", "xlarge", "badheader", "infinity", "len0", "len47", "len49", "negated", "random", "len96", "pair47_49", "pair0_96", "torsion", "nil", "infinity-noncanonical"}
	w.env.Pool = nil // set after the pool is complete
	if c.Bool(1, 3, "onekind") {
		// swarm: only one kind of bad share in this run (so that e.g. ALL retained shares can be empty)
		badKinds = []string{badKinds[c.Choose(len(badKinds), "thekind")]}
	}

	// collectors
	nc := 1 + c.Choose(3, "collectors")
	var cols []*collector
	for k := 0; k < nc; k++ {
		col := &collector{id: k, mode: c.Choose(5, "mode"), st: thrmodel.NewState()}
		who := c.Choose(w.n, "collector.idx")
		if c.Bool(1, 2, "participant?") {
			var p crypto.ThresholdSignatureParticipant
			var err error
			if w.guard("NewBLSThresholdSignatureParticipant", func() {
				p, err = crypto.NewBLSThresholdSignatureParticipant(w.gpk, w.pks, w.t, who, w.sks[who], w.msgB, w.tag)
			}) {
				return
			}
			if err != nil {
				w.viol("C06", "ctor", "ctor.error", "NewBLSThresholdSignatureParticipant failed: %v", err)
				return
			}
			col.obj, col.part = p, p
		} else {
			var p crypto.ThresholdSignatureInspector
			var err error
			if w.guard("NewBLSThresholdSignatureInspector", func() {
				p, err = crypto.NewBLSThresholdSignatureInspector(w.gpk, w.pks, w.t, w.msgB, w.tag)
			}) {
				return
			}
			if err != nil {
				w.viol("C06", "ctor", "ctor.error", "NewBLSThresholdSignatureInspector failed: %v", err)
				return
			}
			col.obj = p
		}
		e := *w.env
		if col.part != nil {
			e.MyShare = hex.EncodeToString(w.pool[who].Bytes)
		}
		col.env = &e
		cols = append(cols, col)
		w.fp = append(w.fp, fmt.Sprint("m", col.mode))
	}
	out.Params["collectors"] = func() []string {
		var l []string
		for _, k := range cols {
			l = append(l, modeName[k.mode])
		}
		return l
	}()

	// every participant sends its share to every collector; faults on the way
	pDrop := c.Choose(4, "pdrop")
	pDup := c.Choose(4, "pdup")
	var pending []msg
	for i := 0; i < w.n; i++ {
		for _, col := range cols {
			m := msg{from: i, to: col.id, share: i, orig: i, label: "honest"}
			if byz[i] {
				if c.Bool(3, 4, "byz.bad?") {
					kind := badKinds[c.Choose(len(badKinds), "byz.kind")]
					m.share = mkBad(kind, i)
					m.label = "byz:" + kind
					out.Faults["byz.share."+kind]++
					if c.Bool(1, 4, "byz.equivocate") {
						// the signer ALSO sends its genuine share: two different shares under one
						// signer index, in whatever order the network delivers them
						pending = append(pending, msg{from: i, to: col.id, share: i, orig: i, label: "byz:equivocation:genuine-copy"})
						out.Faults["byz.equivocation"]++
					}
				} else if c.Bool(1, 3, "byz.omit") {
					out.Faults["byz.omit"]++
					continue
				}
			}
			if c.Bool(pDrop, 12, "net.drop") {
				out.Faults["net.drop"]++
				w.ev("network drops share of %d to collector %d", i, col.id)
				continue
			}
			pending = append(pending, m)
			if c.Bool(pDup, 12, "net.dup") {
				out.Faults["net.duplicate"]++
				pending = append(pending, m)
			}
			if c.Bool(1, 40, "net.badorig") {
				bm := m
				bm.orig = []int{-1, w.n, 255, 1<<31 - 1, 256 + i, 512 + i, -256 + i}[c.Choose(7, "badorig")]
				bm.label = "transport:origin-out-of-range"
				out.Faults["transport.origin_out_of_range"]++
				if c.Bool(1, 2, "badorig.replaces") {
					// the mislabelled copy is the ONLY copy this collector gets from that signer (no
					// genuine message to collide with as a duplicate)
					for k := len(pending) - 1; k >= 0 && pending[k].from == i && pending[k].to == col.id; k-- {
						pending = pending[:k]
					}
					out.Faults["transport.origin_out_of_range_only_copy"]++
				}
				pending = append(pending, bm)
			}
		}
	}
	for _, col := range cols {
		col.env.Pool = w.pool
	}
	w.env.Pool = w.pool

	// deliveries in seeded order (reordering and delay are the scheduler's choice)
	for len(pending) > 0 {
		i := c.Choose(len(pending), "deliver")
		if i != 0 {
			out.Nontrivial = true
		}
		m := pending[i]
		pending = append(pending[:i], pending[i+1:]...)
		col := cols[m.to]
		if col.dead {
			continue
		}
		out.SimTime["deliveries"]++
		w.fp = append(w.fp, fmt.Sprintf("%d:%s:%d", col.mode, w.pool[m.share].Kind, m.orig-m.from))
		switch col.mode {
		case 0:
			w.apply(col, thrmodel.Op{Name: "VerifyAndAdd", Orig: m.orig, Share: m.share})
		case 1:
			r := w.apply(col, thrmodel.Op{Name: "VerifyShare", Orig: m.orig, Share: m.share})
			if r.B1 && !col.dead {
				w.apply(col, thrmodel.Op{Name: "TrustedAdd", Orig: m.orig, Share: m.share})
			}
		case 2:
			w.apply(col, thrmodel.Op{Name: "TrustedAdd", Orig: m.orig, Share: m.share})
		case 4:
			if c.Bool(1, 2, "mixed.trusted") {
				w.apply(col, thrmodel.Op{Name: "TrustedAdd", Orig: m.orig, Share: m.share})
			} else {
				w.apply(col, thrmodel.Op{Name: "VerifyAndAdd", Orig: m.orig, Share: m.share})
			}
		case 3:
			col.list = append(col.list, m.share)
			col.origs = append(col.origs, m.orig)
			w.ev("collector %d (stateless-list): appended share#%d [%s] of %d", col.id, m.share, w.pool[m.share].Kind, m.orig)
		}
		if col.dead || col.mode == 3 {
			continue
		}
		// interleaved queries
		switch c.Choose(6, "query") {
		case 1:
			w.apply(col, thrmodel.Op{Name: "EnoughShares", Share: -1})
		case 2:
			w.apply(col, thrmodel.Op{Name: "HasShare", Orig: c.Choose(w.n+2, "has.idx") - 1, Share: -1})
		case 3:
			w.apply(col, thrmodel.Op{Name: "ThresholdSignature", Share: -1})
		case 4:
			w.apply(col, thrmodel.Op{Name: "VerifyThresholdSignature", Share: -1, Sig: c.Choose(3, "vts.sig")})
		case 5:
			if col.part != nil {
				w.apply(col, thrmodel.Op{Name: "SignShare", Share: -1})
			}
		}
	}
	if sumMap(out.Faults) > 0 {
		out.Nontrivial = true
	}

	// end of the round: every collector reconstructs
	for _, col := range cols {
		if col.dead {
			continue
		}
		if col.mode == 3 {
			w.stateless(col)
			continue
		}
		r := w.apply(col, thrmodel.Op{Name: "ThresholdSignature", Share: -1})
		if r.Err == "" && r.Sig != "" {
			out.Probes["stateful_reconstruction_succeeded"]++
		} else if r.Err == "notenough" {
			out.Probes["stateful_not_enough"]++
		} else if r.Err != "" {
			out.Probes["stateful_reconstruction_rejected_invalid_share"]++
		}
		if !col.dead {
			w.apply(col, thrmodel.Op{Name: "ThresholdSignature", Share: -1}) // cached / repeated
		}
	}
	// late arrivals after the threshold was reached: valid shares offered through VerifyAndAdd must not
	// change what ThresholdSignature returns (still an error if an invalid share is retained)
	for _, col := range cols {
		if col.dead || col.mode == 3 || col.mode == 0 {
			continue
		}
		for i := 0; i < w.n && i < 4 && !col.dead; i++ {
			w.apply(col, thrmodel.Op{Name: "VerifyAndAdd", Orig: i, Share: i})
		}
		if !col.dead {
			w.apply(col, thrmodel.Op{Name: "ThresholdSignature", Share: -1})
		}
	}
	// the network heals: all genuine shares of honest signers are redelivered to the verifying collectors
	for _, col := range cols {
		if col.dead || col.mode != 0 {
			continue
		}
		steps := 0
		for i := 0; i < w.n && !col.dead; i++ {
			if byz[i] {
				continue
			}
			if _, has := col.st.Held[i]; has {
				continue
			}
			steps++
			w.apply(col, thrmodel.Op{Name: "VerifyAndAdd", Orig: i, Share: i})
		}
		if col.dead {
			continue
		}
		r := w.apply(col, thrmodel.Op{Name: "EnoughShares", Share: -1})
		if !r.B1 && !col.dead {
			w.viol("C06", "liveness", "liveness.notenough", "after the network healed and all %d genuine honest shares were redelivered, collector %d does not have enough shares (t=%d)", w.n-len(byz), col.id, w.t)
			continue
		}
		if !col.dead {
			r = w.apply(col, thrmodel.Op{Name: "ThresholdSignature", Share: -1})
			if r.Err == "" {
				out.Probes["healed_reconstruction"]++
			}
		}
	}
	// degenerate collector: the first t+1 arrivals are ALL bad shares of one kind, taken blindly
	// (every length / encoding class, so that e.g. an all-empty flattened array is reached)
	if c.Bool(1, 12, "degenerate") {
		kind := badKinds[c.Choose(len(badKinds), "degenerate.kind")]
		var insp crypto.ThresholdSignatureInspector
		var err error
		if !w.guard("NewBLSThresholdSignatureInspector", func() {
			insp, err = crypto.NewBLSThresholdSignatureInspector(w.gpk, w.pks, w.t, w.msgB, w.tag)
		}) && err == nil {
			col := &collector{id: 99, mode: 2, obj: insp, st: thrmodel.NewState()}
			start := len(w.pool)
			for i := 0; i <= w.t; i++ {
				mkBad(kind, i)
			}
			e := *w.env
			e.Pool = w.pool
			col.env = &e
			for i := 0; i <= w.t && !col.dead; i++ {
				w.apply(col, thrmodel.Op{Name: "TrustedAdd", Orig: i, Share: start + i})
			}
			if !col.dead {
				w.apply(col, thrmodel.Op{Name: "ThresholdSignature", Share: -1})
			}
			// the same through the stateless function
			var sh []crypto.Signature
			var who []int
			for i := 0; i <= w.t; i++ {
				sh = append(sh, w.pool[start+i].Bytes)
				who = append(who, i)
			}
			var sig crypto.Signature
			if !w.guard("BLSReconstructThresholdSignature(degenerate)", func() { sig, err = crypto.BLSReconstructThresholdSignature(w.n, w.t, sh, who) }) {
				if err == nil && undecodable[kind] {
					w.viol("C06", "stateless", "stateless.malformed-share-accepted", "t+1 shares of kind %s (not encodings of points of E1) but the stateless reconstruction returned a signature and a nil error", kind)
				}
				if err == nil && hex.EncodeToString(sig) != w.env.GroupSig {
					hasher := crypto.NewExpandMsgXOFKMAC128(w.tag)
					if ok, _ := w.gpk.Verify(sig, w.msgB, hasher); ok {
						w.viol("C06", "unique", "stateless.second-valid-signature", "degenerate share list of kind %s reconstructs a second valid signature", kind)
					}
				}
			}
			out.Faults["degenerate_collector."+kind]++
			w.fp = append(w.fp, "deg:"+kind)
		}
	}
	// exhaustive subsets through the stateless API for small groups
	if w.n <= 7 {
		w.allSubsets()
	}
	// larger groups: one more stateless reconstruction over a seeded set of genuine shares, t+1 plus
	// 0..5 surplus ones, in a seeded order (the list is long: more than a kilobyte of shares once
	// 22 of them are passed)
	if w.n >= 13 {
		k := w.t + 1 + c.Choose(6, "bigstateless.surplus")
		if k > w.n {
			k = w.n
		}
		perm := make([]int, w.n)
		for i := range perm {
			perm[i] = i
		}
		switch c.Choose(3, "bigstateless.shape") {
		case 0: // seeded random set and order
			ord := c.Sub("bigstateless.order")
			for i := w.n - 1; i > 0; i-- {
				j := ord.Intn(i + 1)
				perm[i], perm[j] = perm[j], perm[i]
			}
		case 1: // the highest indices, top down (large factors in every limb of the Lagrange code)
			for i := range perm {
				perm[i] = w.n - 1 - i
			}
		default: // a contiguous window of indices starting anywhere (wrapping)
			start := c.Choose(w.n, "bigstateless.start")
			for i := range perm {
				perm[i] = (start + i) % w.n
			}
		}
		col := &collector{id: 90, mode: 3}
		for _, i := range perm[:k] {
			col.list = append(col.list, i) // pool index i = genuine share of signer i
			col.origs = append(col.origs, i)
		}
		w.stateless(col)
		w.out.Probes["big_stateless_reconstruction"]++
	}
}

// undecodable lists the bad-share kinds that are not encodings of any point of E1.
var (
	e1CheckOnce sync.Once
	e1CheckErr  error
)

var undecodable = map[string]bool{"infinity-noncanonical": true, "nil": true, "offcurve": true, "xlarge": true, "badheader": true, "len0": true, "len47": true, "len49": true,
	"len96": true, "pair47_49": true, "pair0_96": true}

func sumMap(m map[string]int) int {
	s := 0
	for _, v := range m {
		s += v
	}
	return s
}

// checkKeygen: each private share matches its public share; (Y, y_1..y_n) lie on a polynomial
// of degree <= t (all (t+1)-th finite differences are the identity).
func (w *world) checkKeygen() bool {
	if len(w.sks) != w.n || len(w.pks) != w.n || w.gpk == nil {
		w.viol("C06", "keygen", "keygen.shape", "BLSThresholdKeyGen returned %d/%d keys", len(w.sks), len(w.pks))
		return false
	}
	for i := range w.sks {
		if !w.sks[i].PublicKey().Equals(w.pks[i]) {
			w.viol("C06", "keygen", "keygen.share-mismatch", "private share %d does not match its public share", i)
			return false
		}
	}
	if w.gpk.Equals(crypto.IdentityBLSPublicKey()) {
		w.viol("C06", "keygen", "keygen.identity-group-key", "BLSThresholdKeyGen(%d,%d) returned the identity as group key (a_0 = 0)", w.n, w.t)
		return false
	}
	seq := append([]crypto.PublicKey{w.gpk}, w.pks...)
	for k := 0; k <= w.t; k++ {
		if k == w.t {
			// seq holds the t-th finite differences: the constant t!*a_t*g2. The identity means
			// a_t = 0: a polynomial of degree < t, which FEWER than t+1 participants can interpolate
			if seq[0].Equals(crypto.IdentityBLSPublicKey()) {
				w.viol("C06", "keygen", "keygen.degree-too-low", "group key and public shares of BLSThresholdKeyGen(%d,%d) lie on a polynomial of degree < t", w.n, w.t)
				return false
			}
		}
		next := make([]crypto.PublicKey, len(seq)-1)
		for i := range next {
			d, err := crypto.RemoveBLSPublicKeys(seq[i+1], []crypto.PublicKey{seq[i]})
			if err != nil {
				w.viol("C06", "keygen", "keygen.degree.error", "%v", err)
				return false
			}
			next[i] = d
		}
		seq = next
	}
	for _, d := range seq {
		if !d.Equals(crypto.IdentityBLSPublicKey()) {
			w.viol("C06", "keygen", "keygen.degree", "group key and public shares of BLSThresholdKeyGen(%d,%d) do not lie on one polynomial of degree <= t", w.n, w.t)
			return false
		}
	}
	w.out.Probes["keygen_consistent"]++
	return true
}

func (w *world) ctorErrors(seed []byte) {
	type tc struct{ n, t int }
	for _, x := range []tc{{1, 1}, {0, 0}, {255, 3}, {5, 0}, {5, 5}, {5, -1}, {-3, 1}} {
		var err error
		var sk []crypto.PrivateKey
		if w.guard(fmt.Sprintf("BLSThresholdKeyGen(%d,%d)", x.n, x.t), func() { sk, _, _, err = crypto.BLSThresholdKeyGen(x.n, x.t, seed) }) {
			return
		}
		if !crypto.IsInvalidInputsError(err) || sk != nil {
			w.viol("C06", "ctor", "keygen.badargs.accepted", "BLSThresholdKeyGen(%d,%d) returned %v", x.n, x.t, err)
		}
		var sig crypto.Signature
		if w.guard("BLSReconstructThresholdSignature(bad n,t)", func() {
			sig, err = crypto.BLSReconstructThresholdSignature(x.n, x.t, []crypto.Signature{w.sksSig()}, []int{0})
		}) {
			return
		}
		if !crypto.IsInvalidInputsError(err) || sig != nil {
			w.viol("C06", "ctor", "reconstruct.badargs.accepted", "BLSReconstructThresholdSignature(%d,%d) returned %v", x.n, x.t, err)
		}
		w.out.Faults["bad_constructor_args"]++
	}
	var err error
	if w.guard("BLSThresholdKeyGen(short seed)", func() { _, _, _, err = crypto.BLSThresholdKeyGen(w.n, w.t, seed[:31]) }) {
		return
	}
	if !crypto.IsInvalidInputsError(err) {
		w.viol("C06", "ctor", "keygen.shortseed.accepted", "BLSThresholdKeyGen with a 31-byte seed returned %v", err)
	}
	if w.guard("NewBLSThresholdSignatureInspector(bad t)", func() {
		_, err = crypto.NewBLSThresholdSignatureInspector(w.gpk, w.pks, w.n, w.msgB, w.tag)
	}) {
		return
	}
	if !crypto.IsInvalidInputsError(err) {
		w.viol("C06", "ctor", "inspector.badargs.accepted", "inspector with t=n returned %v", err)
	}
	if w.guard("NewBLSThresholdSignatureParticipant(bad index)", func() {
		_, err = crypto.NewBLSThresholdSignatureParticipant(w.gpk, w.pks, w.t, w.n, w.sks[0], w.msgB, w.tag)
	}) {
		return
	}
	if !crypto.IsInvalidInputsError(err) {
		w.viol("C06", "ctor", "participant.badargs.accepted", "participant with index n returned %v", err)
	}
	if w.n > 1 {
		if w.guard("NewBLSThresholdSignatureParticipant(wrong key)", func() {
			_, err = crypto.NewBLSThresholdSignatureParticipant(w.gpk, w.pks, w.t, 0, w.sks[1], w.msgB, w.tag)
		}) {
			return
		}
		if !crypto.IsInvalidInputsError(err) {
			w.viol("C06", "ctor", "participant.wrongkey.accepted", "participant with a private key of another index returned %v", err)
		}
	}
}

func (w *world) sksSig() crypto.Signature { return make([]byte, 48) }

// stateless feeds the arrival list of a collector into BLSReconstructThresholdSignature.
func (w *world) stateless(col *collector) {
	var shares []crypto.Signature
	for _, p := range col.list {
		shares = append(shares, w.pool[p].Bytes)
	}
	var sig crypto.Signature
	var err error
	if w.guard(fmt.Sprintf("collector %d BLSReconstructThresholdSignature(%d shares)", col.id, len(shares)), func() {
		sig, err = crypto.BLSReconstructThresholdSignature(w.n, w.t, shares, col.origs)
	}) {
		return
	}
	if err == nil && len(sig) > 0 {
		// the result is HELD as returned (no copy) while the same reconstruction is requested a second
		// time: the first result must not change (a result that aliases pooled or internal memory
		// does), and the second must be the same bytes
		held, want := sig, append([]byte(nil), sig...)
		var sig2 crypto.Signature
		var err2 error
		if w.guard(fmt.Sprintf("collector %d BLSReconstructThresholdSignature(again)", col.id), func() {
			sig2, err2 = crypto.BLSReconstructThresholdSignature(w.n, w.t, shares, col.origs)
		}) {
			return
		}
		// ... and a third time on a list whose first share is replaced by another signer's share
		// (whatever that call returns): memory of the first result must be out of its reach
		if len(shares) >= 2 {
			other := append([]crypto.Signature(nil), shares...)
			other[0] = shares[1]
			if w.guard(fmt.Sprintf("collector %d BLSReconstructThresholdSignature(other list)", col.id), func() {
				_, _ = crypto.BLSReconstructThresholdSignature(w.n, w.t, other, col.origs)
			}) {
				return
			}
		}
		if !bytes.Equal(held, want) {
			w.viol("C06", "unique", "stateless.result-mutated", "the signature returned by BLSReconstructThresholdSignature (%d shares) changed when the function was called again", len(shares))
			return
		}
		if err2 != nil || !bytes.Equal(sig2, want) {
			w.viol("C06", "unique", "stateless.second-call-differs", "the same stateless reconstruction (%d shares) requested twice: second result err=%v differs from the first", len(shares), err2)
			return
		}
	}
	got := errClass(err)
	w.ev("collector %d stateless reconstruction over %d arrivals -> err=%q sig=%.16x", col.id, len(shares), got, []byte(sig))
	if len(shares) < w.t+1 {
		if got != "notenough" || sig != nil {
			w.viol("C06", "stateless", "stateless.notenough", "%d < t+1 shares but the stateless reconstruction returned err=%q", len(shares), got)
		}
		w.out.Probes["stateless_not_enough"]++
		return
	}
	hasRange, hasDup := false, false
	seen := map[int]bool{}
	for _, o := range col.origs {
		if o < 0 || o >= w.n {
			hasRange = true
			continue
		}
		if seen[o] {
			hasDup = true
		}
		seen[o] = true
	}
	if hasRange || hasDup {
		ok := (hasRange && got == "input") || (hasDup && got == "duplicate")
		if !ok || sig != nil {
			w.viol("C06", "stateless", "stateless.signers", "signer list with out-of-range=%v duplicate=%v: stateless reconstruction returned err=%q", hasRange, hasDup, got)
			if got == "" {
				w.viol("C09", "invalid-input", "invalid-input-accepted:BLSReconstructThresholdSignature", "signer list with out-of-range=%v duplicate=%v was accepted with a nil error", hasRange, hasDup)
			}
		}
		w.out.Probes["stateless_bad_signers"]++
		return
	}
	allValid := true
	for i := 0; i <= w.t; i++ {
		if !w.pool[col.list[i]].ValidFor(col.origs[i]) {
			allValid = false
		}
	}
	if allValid {
		if got != "" || hex.EncodeToString(sig) != w.env.GroupSig {
			w.viol("C06", "unique", "stateless.differs", "stateless reconstruction from %d valid shares in arrival order %v returned err=%q / a signature different from the group signature", w.t+1, col.origs[:w.t+1], got)
		}
		w.out.Probes["stateless_reconstruction_succeeded"]++
		return
	}
	// an invalid share among the first t+1: error or an invalid signature (documented); never a second valid one.
	// A share that does not even serialize to a curve point (wrong length, bad header, x >= p, off-curve)
	// must give the documented error, not a signature.
	for i := 0; i <= w.t; i++ {
		if undecodable[w.pool[col.list[i]].Kind] && got == "" {
			w.viol("C06", "stateless", "stateless.malformed-share-accepted", "share #%d of the list is of kind %s (does not serialize to a point of E1) but the stateless reconstruction returned a signature and a nil error", i, w.pool[col.list[i]].Kind)
			w.viol("C09", "invalid-input", "invalid-input-accepted:BLSReconstructThresholdSignature", "share #%d of kind %s was accepted with a nil error", i, w.pool[col.list[i]].Kind)
			return
		}
	}
	if got == "" {
		hasher := crypto.NewExpandMsgXOFKMAC128(w.tag)
		// the result may even be valid (shares invalid for their signers can interpolate to the
		// group signature when Lagrange coefficients coincide); what must never happen is a
		// SECOND valid signature
		ok, _ := w.gpk.Verify(sig, w.msgB, hasher)
		if ok && hex.EncodeToString(sig) != w.env.GroupSig {
			w.viol("C06", "unique", "stateless.second-valid-signature", "stateless reconstruction returned a signature that verifies under the group key but differs from the group signature")
		}
		if ok {
			w.out.Probes["stateless_valid_despite_invalid_share"]++
		}
	} else if got != "invalidsig" {
		w.viol("C06", "stateless", "stateless.errclass", "stateless reconstruction with an invalid share returned err=%q", got)
	}
	w.out.Probes["stateless_with_invalid_share"]++
}

// allSubsets: every subset of t+1 signers, in a seeded order each, reconstructs the same bytes.
func (w *world) allSubsets() {
	idx := make([]int, w.t+1)
	var rec func(start, k int) bool
	rnd := w.c.Sub("subsets.order")
	count := 0
	rec = func(start, k int) bool {
		if k == w.t+1 {
			perm := append([]int(nil), idx...)
			for i := len(perm) - 1; i > 0; i-- {
				j := rnd.Intn(i + 1)
				perm[i], perm[j] = perm[j], perm[i]
			}
			var sh []crypto.Signature
			for _, p := range perm {
				sh = append(sh, w.pool[p].Bytes)
			}
			// also append surplus shares (must be ignored: only the first t+1 are used)
			extra := append([]int(nil), perm...)
			if rnd.Intn(2) == 1 {
				for j := 0; j < w.n; j++ {
					in := false
					for _, p := range perm {
						if p == j {
							in = true
						}
					}
					if !in {
						sh = append(sh, w.pool[j].Bytes)
						extra = append(extra, j)
					}
				}
			}
			var sig crypto.Signature
			var err error
			if w.guard("BLSReconstructThresholdSignature(subset)", func() { sig, err = crypto.BLSReconstructThresholdSignature(w.n, w.t, sh, extra) }) {
				return false
			}
			count++
			if err != nil || !bytes.Equal([]byte(hex.EncodeToString(sig)), []byte(w.env.GroupSig)) {
				w.viol("C06", "unique", "subset.differs", "signers %v (in this order) reconstruct err=%v / a signature different from the one of signers 0..t", extra, err)
				return false
			}
			return true
		}
		for i := start; i < w.n; i++ {
			idx[k] = i
			if !rec(i+1, k+1) {
				return false
			}
		}
		return true
	}
	rec(0, 0)
	w.out.Probes["subsets_enumerated"] += count
}
