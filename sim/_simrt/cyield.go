package simrt

/*
#include <stdint.h>
*/
import "C"

// simrtYieldC is called by the yields that sim/cinstr inserts into the C glue code
// (SIMRT_Y(line) in simrt_c.h, through a weak symbol). C source lines are reported with an
// offset of 1 000 000 so that they cannot be confused with Go lines in schedule traces.
//
//export simrtYieldC
func simrtYieldC(line C.int) {
	Y(1000000 + int(line))
}
