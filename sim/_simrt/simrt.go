// Package simrt is a cooperative, seeded goroutine scheduler that is dropped into a scratch
// copy of onflow/crypto (never into /repo). The instrumenter inserts simrt.Y(line) before
// every statement of the library and replaces sync.(RW)Mutex by the simulated locks below.
//
// Tasks are real goroutines but exactly one is ever running: each parks on its own wake
// channel, and the scheduler (running in the goroutine that called Run) decides who runs
// next from a choice function owned by the harness. All hand-offs happen inside
// runtime.RaceDisable() in //go:norace functions, so they create NO happens-before edges
// for the Go race detector, while the wrapped real mutexes, the `go` statements that start
// the tasks and the final WaitGroup join create exactly the edges production code has.
// The race detector therefore reports unsynchronised conflicting accesses although the
// tasks never physically overlap, and a report belongs to one seed and one schedule.
package simrt

import (
	"cmp"
	"fmt"
	"iter"
	"runtime"
	"slices"
	"sync"
	"sync/atomic"
	"time"
	"unsafe"
)

// Choose is the harness' choice function: a value in [0,n).
type Choose func(n int, label string) int

// Switch records one scheduling decision.
type Switch struct {
	Task   int
	Site   int // line of the last yield point of the task that was running before
	Budget int
}

type evKind int

const (
	evYield evKind = iota
	evBlocked
	evDone
	evPerm // the task asks the scheduler for a permutation (iteration order of a map)
)

type task struct {
	id          int
	wake        chan struct{}
	done        bool
	started     bool
	blockedOn   *RWMutex
	wantWrite   bool
	site        int
	fn          func()
	panicVal    any
	cw          []cwatch // Go memory handed to C by this task and not yet re-examined
	permN       int      // evPerm: size of the requested permutation
	chanWait    bool     // parked in a channel operation that could not complete
	chanEpoch   int      // value of Sim.chanEpoch when it parked
	chanInexact bool     // parked in a SEND on an unbuffered channel (see SendTo)
	chanDesc    string
	perm        []int // evPerm: the scheduler's answer
}

// Sim is one simulated execution of a set of tasks.
type Sim struct {
	choose   Choose
	tasks    []*task
	cur      *task
	budget   int
	toSched  chan evKind
	Steps    int
	Trace    []Switch
	Deadlock string
	MaxSteps int
	// policy
	SwitchDen int // a budget is drawn from budgets[]; larger index = shorter bursts
	pct       bool
	prio      []int
	changeAt  []int
	// statistics
	Contended    int
	SwitchInCrit int
	lockDepth    int
	Switches     int
	ChanOps      int // channel operations of tasks inside the library that completed
	ChanBlocks   int // of which had to park first
	chanEpoch    int
	MapOrders    int // range-over-map loops whose order was drawn from the choice stream
	CArgs        int // Go objects handed to C by tasks
	CWrites      int // of which modified by C
	cobjs        []cobj
	// last modification by C of a Go object that another task also handed to C (0 = none):
	// Go source lines of the two cgo calls and the size of the object
	CWSite, CWOther, CWBytes int
	seq                      int64
}

// S is the active simulation (nil = scheduler off: Y is a no-op, locks are plain locks).
var S *Sim

var budgets = []int{0, 1, 2, 3, 5, 8, 13, 40, 200}

// New creates a simulation; fns are the task bodies.
func New(choose Choose, fns ...func()) *Sim {
	s := &Sim{choose: choose, toSched: make(chan evKind), MaxSteps: 400000}
	for i, f := range fns {
		s.tasks = append(s.tasks, &task{id: i, wake: make(chan struct{}), fn: f})
	}
	return s
}

// Y is the yield point inserted before every statement.
//
//go:norace
func Y(line int) {
	s := S
	if s == nil {
		return
	}
	t := s.cur
	if t == nil {
		return
	}
	t.site = line
	s.Steps++
	if len(t.cw) > 0 && line < 1000000 {
		// back in Go code after a cgo call: see what C did to the Go memory it was given
		// (not at yields INSIDE the C function: it may not have written yet)
		flushC(t)
	}
	if s.budget != 0 {
		if s.budget > 0 {
			s.budget--
		}
		if s.Steps < s.MaxSteps {
			return
		}
	}
	handoff(s, t, evYield)
}

// handoff gives control to the scheduler and parks the task until it is woken.
//
//go:norace
func handoff(s *Sim, t *task, ev evKind) {
	runtime.RaceDisable()
	s.toSched <- ev
	if ev != evDone {
		<-t.wake
	}
	runtime.RaceEnable()
}

//go:norace
func (s *Sim) runnable(t *task) bool {
	if t.done {
		return false
	}
	if t.blockedOn != nil {
		return t.blockedOn.canGrant(t.wantWrite, t)
	}
	if t.chanWait {
		// retry only after some channel operation completed or a channel was closed
		return t.chanEpoch != s.chanEpoch
	}
	return true
}

// Run executes all tasks to completion under the seeded schedule. It returns the panics of
// the tasks (nil entries for tasks that returned normally).
//
//go:norace
func (s *Sim) Run() []any {
	var wg sync.WaitGroup
	S = s
	for _, t := range s.tasks {
		t := t
		wg.Add(1)
		go func() {
			defer wg.Done()
			runtime.RaceDisable()
			<-t.wake
			runtime.RaceEnable()
			func() {
				defer func() {
					if r := recover(); r != nil {
						t.panicVal = r
					}
				}()
				t.fn()
			}()
			t.done = true
			handoff(s, t, evDone)
		}()
	}
	runtime.RaceDisable()
	// policy of this run: random bursts or PCT-style priorities with change points
	s.pct = s.choose(3, "sched.policy") == 2
	if s.pct {
		n := len(s.tasks)
		s.prio = make([]int, n)
		for i := range s.prio {
			s.prio[i] = i
		}
		for i := n - 1; i > 0; i-- {
			j := s.choose(i+1, "sched.pct.prio")
			s.prio[i], s.prio[j] = s.prio[j], s.prio[i]
		}
		d := 1 + s.choose(3, "sched.pct.depth")
		for k := 0; k < d; k++ {
			s.changeAt = append(s.changeAt, s.choose(600, "sched.pct.change"))
		}
	} else {
		s.SwitchDen = 1 + s.choose(len(budgets)-1, "sched.burst")
	}
	dead, capped := false, false
	grace, graceEpoch := 0, -2
	for {
		var run []*task
		for _, t := range s.tasks {
			if s.runnable(t) {
				run = append(run, t)
			}
		}
		if len(run) == 0 {
			all := true
			for _, t := range s.tasks {
				if !t.done {
					all = false
				}
			}
			if !all {
				// tasks parked on a channel may be served by a goroutine outside the model (one the
				// library started itself): give it (real) time before calling it a deadlock
				waiters := 0
				for _, t := range s.tasks {
					if !t.done && t.chanWait {
						waiters++
						t.chanEpoch = -1
					}
				}
				if waiters > 0 && grace < 40 {
					if s.chanEpoch != graceEpoch {
						graceEpoch, grace = s.chanEpoch, 0
					}
					grace++
					time.Sleep(2 * time.Millisecond)
					continue
				}
				dead = true
			}
			break
		}
		if s.Steps >= s.MaxSteps {
			dead, capped = true, true
			break
		}
		var pick *task
		if s.pct {
			// highest priority runnable task; at a change point the running task drops to the lowest priority
			for _, c := range s.changeAt {
				if c == s.Steps && s.cur != nil {
					min := 0
					for _, p := range s.prio {
						if p < min {
							min = p
						}
					}
					s.prio[s.cur.id] = min - 1
				}
			}
			for _, t := range run {
				if pick == nil || s.prio[t.id] > s.prio[pick.id] {
					pick = t
				}
			}
			// run until the next change point (or for ever)
			s.budget = -1
			next := -1
			for _, c := range s.changeAt {
				if c > s.Steps && (next < 0 || c < next) {
					next = c
				}
			}
			if next > 0 {
				s.budget = next - s.Steps - 1
				if s.budget < 0 {
					s.budget = 0
				}
			}
		} else {
			// value 0 = keep the current task running (if it can); otherwise pick among the runnable ones
			k := 0
			if len(run) > 1 {
				k = s.choose(len(run), "sched.task")
			}
			// order: current task first
			ordered := run
			if s.cur != nil {
				for i, t := range run {
					if t == s.cur && i != 0 {
						ordered = append([]*task{t}, append(append([]*task(nil), run[:i]...), run[i+1:]...)...)
					}
				}
			}
			pick = ordered[k]
			b := 0
			if len(run) > 1 {
				b = s.choose(s.SwitchDen+1, "sched.budget")
			}
			if b == 0 {
				s.budget = -1 // until it blocks or finishes
			} else {
				s.budget = budgets[b]
			}
		}
		if pick != s.cur {
			s.Switches++
			if s.lockDepth > 0 {
				s.SwitchInCrit++
			}
		}
		prevSite := 0
		if s.cur != nil {
			prevSite = s.cur.site
		}
		if len(s.Trace) < 4000 {
			s.Trace = append(s.Trace, Switch{Task: pick.id, Site: prevSite, Budget: s.budget})
		}
		s.cur = pick
		if pick.blockedOn != nil {
			// the scheduler grants the lock on behalf of the task (model state), the task then takes the real one
			pick.blockedOn.grant(pick.wantWrite, pick)
			pick.blockedOn = nil
		}
		pick.started = true
		pick.wake <- struct{}{}
		for ev := <-s.toSched; ev == evPerm; ev = <-s.toSched {
			// iteration order of a map inside the library: a permutation from the choice stream
			// (all zeros = sorted order); the task continues at once
			n := pick.permN
			perm := make([]int, n)
			for i := range perm {
				perm[i] = i
			}
			for i := 0; i < n-1 && i < 16; i++ {
				j := i + s.choose(n-i, "maporder")
				perm[i], perm[j] = perm[j], perm[i]
			}
			pick.perm = perm
			s.MapOrders++
			pick.wake <- struct{}{}
		}
	}
	s.cur = nil
	S = nil
	runtime.RaceEnable()
	// (no fmt / sync.Pool use while race synchronisation is disabled: pooled objects shared with
	// the tasks would look racy)
	if dead && !capped {
		for _, t := range s.tasks {
			if !t.done && t.chanInexact {
				// two tasks meeting on an UNBUFFERED channel cannot be told from a deadlock by polling:
				// no verdict; the per-run watchdog reports a stall (harness trouble, exit 2)
				select {}
			}
		}
	}
	if dead {
		if capped {
			s.Deadlock = fmt.Sprintf("step cap %d reached (livelock?)", s.MaxSteps)
		} else {
			s.Deadlock = s.describeDeadlock()
		}
	} else {
		wg.Wait()
	}
	out := make([]any, len(s.tasks))
	for i, t := range s.tasks {
		out[i] = t.panicVal
	}
	return out
}

//go:norace
func (s *Sim) describeDeadlock() string {
	d := "deadlock:"
	for _, t := range s.tasks {
		if !t.done && t.chanWait {
			d += fmt.Sprintf(" task %d blocked at line %d in a channel %s", t.id, t.site, t.chanDesc)
		} else if !t.done {
			d += fmt.Sprintf(" task %d blocked at line %d (write=%v)", t.id, t.site, t.wantWrite)
		}
	}
	return d
}

// RWMutex is the simulated reader/writer lock: a model lock (who may proceed is decided by
// the scheduler) in front of a real sync.RWMutex, which is taken once the model has granted
// it and therefore never blocks, but gives the race detector the real happens-before edges.
type RWMutex struct {
	mu       sync.RWMutex
	writer   *task
	nreaders int
	waitingW int
}

// Mutex is the simulated mutual exclusion lock.
type Mutex struct{ rw RWMutex }

func (m *Mutex) Lock()         { m.rw.Lock() }
func (m *Mutex) Unlock()       { m.rw.Unlock() }
func (m *Mutex) TryLock() bool { return m.rw.TryLock() }

// Once is sync.Once over the simulated mutex: a task descheduled inside f keeps the
// (simulated) lock, and a second caller blocks in the scheduler's model instead of on a
// real mutex the scheduler knows nothing about. The fast path is the same atomic load as
// in sync.Once, so the race detector sees the same happens-before edges.
type Once struct {
	done atomic.Uint32
	m    Mutex
}

// Do mirrors sync.Once.Do.
func (o *Once) Do(f func()) {
	if o.done.Load() == 0 {
		o.doSlow(f)
	}
}

func (o *Once) doSlow(f func()) {
	o.m.Lock()
	defer o.m.Unlock()
	if o.done.Load() == 0 {
		defer o.done.Store(1)
		f()
	}
}

//go:norace
func (m *RWMutex) canGrant(write bool, t *task) bool {
	if write {
		return m.writer == nil && m.nreaders == 0
	}
	// writer preference of sync.RWMutex: a blocked Lock call excludes new readers
	return m.writer == nil && m.waitingW == 0
}

//go:norace
func (m *RWMutex) grant(write bool, t *task) {
	if write {
		m.writer = t
		m.waitingW--
	} else {
		m.nreaders++
	}
	if S != nil {
		S.lockDepth++
	}
}

//go:norace
func (m *RWMutex) acquire(write bool) {
	s := S
	t := s.cur
	if m.canGrant(write, t) {
		if write {
			m.waitingW++ // grant() decrements
		}
		m.grant(write, t)
		return
	}
	s.Contended++
	if write {
		m.waitingW++
	}
	t.blockedOn = m
	t.wantWrite = write
	handoff(s, t, evBlocked)
	// woken only after the scheduler granted the lock
}

//go:norace
func (m *RWMutex) release(write bool) {
	s := S
	if write {
		m.writer = nil
	} else {
		m.nreaders--
	}
	s.lockDepth--
}

//go:norace
func (m *RWMutex) Lock() {
	if S != nil && S.cur != nil {
		m.acquire(true)
	}
	m.mu.Lock()
}

//go:norace
func (m *RWMutex) Unlock() {
	CFlush() // writes made by C inside the critical section are reported inside it
	m.mu.Unlock()
	if S != nil && S.cur != nil {
		m.release(true)
	}
}

//go:norace
func (m *RWMutex) RLock() {
	if S != nil && S.cur != nil {
		m.acquire(false)
	}
	m.mu.RLock()
}

//go:norace
func (m *RWMutex) RUnlock() {
	CFlush()
	m.mu.RUnlock()
	if S != nil && S.cur != nil {
		m.release(false)
	}
}

// TryLock mirrors sync.RWMutex.TryLock: never blocks, fails when the lock is held in any mode.
//
//go:norace
func (m *RWMutex) TryLock() bool {
	if S != nil && S.cur != nil {
		if !m.canGrant(true, S.cur) {
			return false
		}
		m.waitingW++ // grant() decrements
		m.grant(true, S.cur)
		m.mu.Lock() // free by construction
		return true
	}
	return m.mu.TryLock()
}

// TryRLock mirrors sync.RWMutex.TryRLock: fails when a writer holds the lock or is waiting for it.
//
//go:norace
func (m *RWMutex) TryRLock() bool {
	if S != nil && S.cur != nil {
		if !m.canGrant(false, S.cur) {
			return false
		}
		m.grant(false, S.cur)
		m.mu.RLock() // free by construction
		return true
	}
	return m.mu.TryRLock()
}

// RLocker mirrors sync.RWMutex.
func (m *RWMutex) RLocker() sync.Locker { return (*rlocker)(m) }

type rlocker RWMutex

func (r *rlocker) Lock()   { (*RWMutex)(r).RLock() }
func (r *rlocker) Unlock() { (*RWMutex)(r).RUnlock() }

// LocksHeld returns the number of simulated locks still held (after Run: a leaked lock).
//
//go:norace
func (s *Sim) LocksHeld() int { return s.lockDepth }

// TaskYield lets harness code (between two API calls of a task) offer a switch.
func TaskYield() { Y(-1) }

// Stamp returns the next value of the simulation's global event sequence number (used to
// time-stamp invocations and responses of recorded histories).
//
//go:norace
func Stamp() int64 {
	s := S
	if s == nil {
		return 0
	}
	s.seq++
	return s.seq
}

// ---- accesses of C code to Go memory -----------------------------------------------------
//
// The Go race detector does not see loads and stores made by C. The instrumenter therefore
// wraps every pointer that the library hands to a cgo call ((*C.T)(expr)) in CPtr / CSliceP:
// at the call the pointed-to object (for &x[0]: the whole slice x) is reported to the
// detector as READ by the calling task and its bytes are remembered; at the task's next Go
// yield point, lock release or explicit CFlush (inserted right after the statement that
// contains the call) the bytes are compared, and an object that C has modified is reported
// as WRITTEN. A C routine that modifies an object shared with another task, or reads one that
// another task's C call modifies, thus becomes an ordinary data-race report of the run.
// The wrappers store the pointer in a heap structure, so escape analysis keeps the pointee
// off the goroutine stack and the remembered address stays valid.

type cwatch struct {
	p    unsafe.Pointer
	n    int
	snap []byte
	site int // Go source line of the cgo call
}

// cobj remembers which task handed which Go object to C (per simulation, bounded), so that
// a modification by C of an object that another task also gave to C can be named in the log:
// the stacks of a race report that comes from these explicit annotations show the task's
// last instrumented Go frames, not the cgo call.
type cobj struct {
	p    unsafe.Pointer
	n    int
	task int
	site int
}

// CPtr registers the object p points to and returns p.
func CPtr[T any](p *T) *T {
	if p != nil {
		cArg(unsafe.Pointer(p), int(unsafe.Sizeof(*p)))
	}
	return p
}

// CSliceP registers the whole slice s (C gets a pointer to its first element plus a length)
// and returns p unchanged.
func CSliceP[E any](s []E, p *E) *E {
	if len(s) > 0 {
		cArg(unsafe.Pointer(&s[0]), len(s)*int(unsafe.Sizeof(s[0])))
	}
	return p
}

//go:norace
func cArg(p unsafe.Pointer, n int) {
	s := S
	if s == nil || n <= 0 {
		return
	}
	t := s.cur
	if t == nil {
		return
	}
	runtime.RaceReadRange(p, n)
	snap := make([]byte, n)
	copy(snap, unsafe.Slice((*byte)(p), n))
	t.cw = append(t.cw, cwatch{p: p, n: n, snap: snap, site: t.site})
	if len(s.cobjs) < 8192 {
		s.cobjs = append(s.cobjs, cobj{p: p, n: n, task: t.id, site: t.site})
	}
	s.CArgs++
}

// CFlush re-examines the memory handed to C by the current task.
//
//go:norace
func CFlush() {
	s := S
	if s == nil {
		return
	}
	if t := s.cur; t != nil && len(t.cw) > 0 {
		flushC(t)
	}
}

//go:norace
func flushC(t *task) {
	for _, w := range t.cw {
		cur := unsafe.Slice((*byte)(w.p), w.n)
		same := true
		for i := range cur {
			if cur[i] != w.snap[i] {
				same = false
				break
			}
		}
		if !same {
			if s := S; s != nil {
				s.CWrites++
				lo, hi := uintptr(w.p), uintptr(w.p)+uintptr(w.n)
				for _, o := range s.cobjs {
					if o.task != t.id && uintptr(o.p) < hi && lo < uintptr(o.p)+uintptr(o.n) {
						// (println: no fmt / sync.Pool in norace code)
						println("SIMRT-C-WRITE: the C call at Go line", w.site, "of task", t.id, "modified a Go object of", w.n,
							"bytes that task", o.task, "also handed to C at Go line", o.site)
						s.CWSite, s.CWOther, s.CWBytes = w.site, o.site, w.n
						break
					}
				}
			}
			runtime.RaceWriteRange(w.p, w.n)
		}
	}
	t.cw = t.cw[:0]
}

// ---- iteration order of maps -------------------------------------------------------------

// ---- channels ---------------------------------------------------------------------------
//
// A channel operation of a task inside the library (`ch <- v`, `<-ch`, `close(ch)`, rewritten by
// the instrumenter to SendTo / Recv / Recv2 / Close) is tried without blocking; when it cannot
// complete the task parks and the scheduler runs it again after some other channel operation
// completed. For buffered channels and for closed channels that is exact. The real channel
// operation is what finally happens, so the race detector sees the real happens-before edges.

//go:norace
func chanPark(s *Sim, t *task, desc string, inexact bool) {
	s.ChanBlocks++
	t.chanWait, t.chanEpoch, t.chanDesc, t.chanInexact = true, s.chanEpoch, desc, inexact
	handoff(s, t, evBlocked)
	t.chanWait, t.chanInexact = false, false
}

// SendTo(ch)(v) replaces `ch <- v`.
func SendTo[T any](ch chan<- T) func(T) {
	return func(v T) {
		s, t := chanTask()
		if s == nil {
			ch <- v
			return
		}
		for {
			select {
			case ch <- v:
				chanDone(s)
				return
			default:
			}
			chanPark(s, t, "send", cap(ch) == 0)
		}
	}
}

// Recv(ch) replaces `<-ch`.
func Recv[T any](ch <-chan T) T {
	v, _ := Recv2(ch)
	return v
}

// Recv2(ch) replaces the two-valued `v, ok := <-ch`.
func Recv2[T any](ch <-chan T) (T, bool) {
	s, t := chanTask()
	if s == nil {
		v, ok := <-ch
		return v, ok
	}
	for {
		select {
		case v, ok := <-ch:
			chanDone(s)
			return v, ok
		default:
		}
		chanPark(s, t, "receive", false)
	}
}

// Close(ch) replaces `close(ch)`.
func Close[T any](ch chan<- T) {
	close(ch)
	if s := S; s != nil {
		chanDone(s)
	}
}

//go:norace
func chanDone(s *Sim) {
	s.chanEpoch++
	s.ChanOps++
}

// chanTask returns the running simulation and task (nil, nil when the scheduler is off).
//
//go:norace
func chanTask() (*Sim, *task) {
	s := S
	if s == nil || s.cur == nil {
		return nil, nil
	}
	return s, s.cur
}

// Ordered replaces `range m` over a map in the instrumented library. Go randomises the
// iteration order per execution; with a yield before every statement that alone would make
// two executions of one seed differ. Outside a simulation the order is the sorted one; inside
// one it is a permutation of the sorted keys drawn by the scheduler from the choice stream,
// so that order-dependent behaviour is explored, recorded and replayed like any other choice.
// Entries deleted by the loop body before they are reached are skipped, as `range` does.
func Ordered[M ~map[K]V, K cmp.Ordered, V any](m M) iter.Seq2[K, V] {
	keys := make([]K, 0, len(m))
	for k := range m {
		keys = append(keys, k)
	}
	slices.Sort(keys)
	if p := mapPerm(len(keys)); p != nil {
		pk := make([]K, len(keys))
		for i, j := range p {
			pk[i] = keys[j]
		}
		keys = pk
	}
	return func(yield func(K, V) bool) {
		for _, k := range keys {
			v, ok := m[k]
			if !ok {
				continue
			}
			if !yield(k, v) {
				return
			}
		}
	}
}

//go:norace
func mapPerm(n int) []int {
	s := S
	if s == nil || n < 2 {
		return nil
	}
	t := s.cur
	if t == nil {
		return nil
	}
	t.permN = n
	t.perm = nil
	handoff(s, t, evPerm)
	if t.perm == nil {
		return nil
	}
	// copy by hand inside this norace function: the scheduler wrote t.perm without a
	// happens-before edge the detector knows of (hand-offs are hidden from it on purpose)
	out := make([]int, n)
	for i := range out {
		out[i] = t.perm[i]
	}
	return out
}
