// Package prgcrash simulates a consumer process that owns a ChaCha20 PRG and checkpoints
// it to a simulated disk; the simulator crashes and restarts the consumer at seeded points
// and injects lost / short / over-long checkpoint writes (property C14).
//
// Real code: random.NewChacha20PRG, Read, UintN, Permutation, SubPermutation, Shuffle,
// Samples, Store, RestoreChacha20PRG. Stubs: the disk, the crash, and the reference model
// (an independent RFC 8439 block function below).
package prgcrash

import (
	"bytes"
	"encoding/binary"
	"fmt"
	"math/bits"

	"github.com/onflow/crypto/random"

	"verifsim/choice"
	"verifsim/engine"
)

type Engine struct{}

func (Engine) Name() string { return "prgcrash" }

// ---- independent RFC 8439 keystream model -------------------------------------------

type model struct {
	key   [8]uint32
	nonce [3]uint32
}

func newModel(seed, customizer []byte) *model {
	m := &model{}
	var n [12]byte
	copy(n[:], customizer)
	for i := 0; i < 8; i++ {
		m.key[i] = binary.LittleEndian.Uint32(seed[4*i:])
	}
	for i := 0; i < 3; i++ {
		m.nonce[i] = binary.LittleEndian.Uint32(n[4*i:])
	}
	return m
}

func qr(a, b, c, d *uint32) {
	*a += *b
	*d ^= *a
	*d = bits.RotateLeft32(*d, 16)
	*c += *d
	*b ^= *c
	*b = bits.RotateLeft32(*b, 12)
	*a += *b
	*d ^= *a
	*d = bits.RotateLeft32(*d, 8)
	*c += *d
	*b ^= *c
	*b = bits.RotateLeft32(*b, 7)
}

func (m *model) block(counter uint32) [64]byte {
	var s [16]uint32
	s[0], s[1], s[2], s[3] = 0x61707865, 0x3320646e, 0x79622d32, 0x6b206574
	copy(s[4:12], m.key[:])
	s[12] = counter
	copy(s[13:16], m.nonce[:])
	w := s
	for i := 0; i < 10; i++ {
		qr(&w[0], &w[4], &w[8], &w[12])
		qr(&w[1], &w[5], &w[9], &w[13])
		qr(&w[2], &w[6], &w[10], &w[14])
		qr(&w[3], &w[7], &w[11], &w[15])
		qr(&w[0], &w[5], &w[10], &w[15])
		qr(&w[1], &w[6], &w[11], &w[12])
		qr(&w[2], &w[7], &w[8], &w[13])
		qr(&w[3], &w[4], &w[9], &w[14])
	}
	var out [64]byte
	for i := 0; i < 16; i++ {
		binary.LittleEndian.PutUint32(out[4*i:], w[i]+s[i])
	}
	return out
}

// stream returns keystream bytes [off, off+n).
func (m *model) stream(off uint64, n int) []byte {
	out := make([]byte, 0, n)
	for n > 0 {
		b := m.block(uint32(off / 64))
		s := int(off % 64)
		k := 64 - s
		if k > n {
			k = n
		}
		out = append(out, b[s:s+k]...)
		off += uint64(k)
		n -= k
	}
	return out
}

// ---- the simulated consumer ----------------------------------------------------------

type prg interface {
	Read([]byte)
	UintN(uint64) uint64
	Permutation(int) ([]int, error)
	SubPermutation(int, int) ([]int, error)
	Shuffle(int, func(i, j int)) error
	Samples(int, int, func(i, j int)) error
	Store() []byte
}

type op struct {
	kind string
	a, b int
}

func (o op) String() string { return fmt.Sprintf("%s(%d,%d)", o.kind, o.a, o.b) }

// exec performs a consuming operation and returns a canonical encoding of its result.
func exec(p prg, o op) (res []byte, err error) {
	defer func() {
		if r := recover(); r != nil {
			err = fmt.Errorf("panic: %v", r)
		}
	}()
	switch o.kind {
	case "read":
		b := make([]byte, o.a)
		// poison the buffer: Read must overwrite all of it
		for i := range b {
			b[i] = 0xA5
		}
		p.Read(b)
		return b, nil
	case "uintn":
		v := p.UintN(uint64(o.a))
		return binary.LittleEndian.AppendUint64(nil, v), nil
	case "perm":
		l, e := p.Permutation(o.a)
		return encInts(l), e
	case "subperm":
		l, e := p.SubPermutation(o.a, o.b)
		return encInts(l), e
	case "shuffle":
		l := iota(o.a)
		e := p.Shuffle(o.a, func(i, j int) { l[i], l[j] = l[j], l[i] })
		return encInts(l), e
	case "samples":
		l := iota(o.a)
		e := p.Samples(o.a, o.b, func(i, j int) { l[i], l[j] = l[j], l[i] })
		return encInts(l), e
	}
	return nil, fmt.Errorf("unknown op")
}

func iota(n int) []int {
	l := make([]int, n)
	for i := range l {
		l[i] = i
	}
	return l
}

func encInts(l []int) []byte {
	var b []byte
	for _, v := range l {
		b = binary.LittleEndian.AppendUint32(b, uint32(v))
	}
	return b
}

var readSizes = []int{1, 0, 63, 64, 65, 127, 128, 129, 7, 32}

type ckpt struct {
	bytes []byte // what the disk holds
	opIdx int    // number of consuming ops executed before Store() was taken
	off   uint64
}

func counterOf(state []byte) (uint64, bool) {
	if len(state) != 52 {
		return 0, false
	}
	return binary.LittleEndian.Uint64(state[44:]), true
}

func (Engine) Run(c *choice.Src, o engine.Opt) (out engine.Out) {
	out = engine.Out{Params: map[string]any{}, Faults: map[string]int{}, Probes: map[string]int{}, SimTime: map[string]int{}}
	var trace []string
	var evlog []string
	var fp []string
	ev := func(f string, a ...any) {
		s := fmt.Sprintf(f, a...)
		evlog = append(evlog, s)
		if o.Trace {
			trace = append(trace, s)
		}
	}
	viol := func(oracle, class, f string, a ...any) {
		d := fmt.Sprintf(f, a...)
		out.Viols = append(out.Viols, engine.Viol{Property: "C14", Oracle: oracle, Class: class, Detail: d})
		ev("VIOLATION %s: %s", class, d)
	}
	defer func() {
		out.Trace = trace
		out.EventHash = engine.HexHash(evlog)
		out.Fingerprint = engine.HashStrings(fp...)
	}()

	mode := c.Weighted([]int{6, 2, 1}, "mode") // 0 history, 1 offset sweep, 2 constructor validation
	if o.Mode == "sweep" {
		mode = 1
	}
	sub := c.Sub("seedbytes")
	seed := sub.Bytes(32)
	switch c.Weighted([]int{38, 1, 1}, "seedkind") {
	case 1:
		seed = make([]byte, 32) // the all-zero seed is a legal seed like any other
		out.Faults["seed.all_zero"]++
	case 2:
		for i := range seed {
			seed[i] = 0xFF
		}
		out.Faults["seed.all_ones"]++
	}
	clen := c.Weighted([]int{2, 1, 1, 1, 1, 1, 1, 1, 1, 1, 1, 1, 3}, "custlen")
	cust := sub.Bytes(12)[:clen]
	out.Params["mode"] = []string{"history", "offset-sweep", "constructors"}[mode]
	out.Params["customizer_len"] = clen
	fp = append(fp, fmt.Sprint("mode", mode, "clen", clen))

	oneRecord := c.Bool(1, 3, "seed.and.customizer.in.one.buffer")
	if oneRecord {
		out.Faults["shape.customizer_and_seed_share_backing_array"]++
	}
	newPRG := func() (prg, error) {
		// the caller's buffers are reused after the call: the generator must not alias them
		s2, c2 := append([]byte(nil), seed...), append([]byte(nil), cust...)
		if oneRecord {
			// customizer and seed are neighbours in ONE caller buffer (a record "tag || seed"): the
			// customizer's spare capacity is the seed, the seed's spare capacity a guard area
			rec := make([]byte, len(cust)+len(seed)+16)
			copy(rec, cust)
			copy(rec[len(cust):], seed)
			c2 = rec[:len(cust)]
			s2 = rec[len(cust) : len(cust)+len(seed)]
		}
		p, err := random.NewChacha20PRG(s2, c2)
		if err != nil {
			return nil, err
		}
		for i := range s2 {
			s2[i] ^= 0xFF
		}
		for i := range c2 {
			c2[i] ^= 0xFF
		}
		return p, nil
	}
	// restore from a private copy of the state which is scribbled over afterwards; a state
	// returned by Store() is likewise copied by the harness and the original scribbled over
	restore := func(state []byte) (prg, error) {
		st := append([]byte(nil), state...)
		q, err := random.RestoreChacha20PRG(st)
		for i := range st {
			st[i] ^= 0xA5
		}
		if err != nil || q == nil {
			return nil, err
		}
		return q, nil
	}
	store := func(p prg) []byte {
		st := p.Store()
		cp := append([]byte(nil), st...)
		for i := range st {
			st[i] = 0xEE
		}
		return cp
	}
	_, _ = restore, store
	m := newModel(seed, cust)

	switch mode {
	case 2:
		// constructor / restore argument validation
		out.Nontrivial = true
		for _, l := range []int{0, 1, 16, 31, 33, 64} {
			p, err := random.NewChacha20PRG(make([]byte, l), cust)
			ev("NewChacha20PRG(seed len %d) -> err=%v", l, err != nil)
			if err == nil || p != nil {
				viol("ctor", "ctor.seedlen.accepted", "seed of %d bytes accepted", l)
			}
			out.Faults["bad_seed_len"]++
		}
		for _, l := range []int{13, 14, 24, 100} {
			p, err := random.NewChacha20PRG(seed, make([]byte, l))
			ev("NewChacha20PRG(customizer len %d) -> err=%v", l, err != nil)
			if err == nil || p != nil {
				viol("ctor", "ctor.custlen.accepted", "customizer of %d bytes accepted", l)
			}
			out.Faults["bad_customizer_len"]++
		}
		p, err := newPRG()
		if err != nil {
			viol("ctor", "ctor.valid.rejected", "valid seed/customizer rejected: %v", err)
			return out
		}
		pre := c.Range(0, 200, "prefix")
		p.Read(make([]byte, pre))
		st := p.Store()
		for l := 0; l <= 120; l++ {
			if l == 52 {
				continue
			}
			var bad []byte
			if l < 52 {
				bad = st[:l]
			} else {
				bad = append(append([]byte(nil), st...), make([]byte, l-52)...)
			}
			func() {
				defer func() {
					if r := recover(); r != nil {
						viol("restore", "restore.badlen.panic", "RestoreChacha20PRG(len %d) panicked: %v", l, r)
					}
				}()
				q, err := random.RestoreChacha20PRG(bad)
				if err == nil || q != nil {
					viol("restore", "restore.badlen.accepted", "state of %d bytes accepted", l)
				}
			}()
			out.Faults["bad_state_len"]++
		}
		ev("restore rejected all wrong lengths 0..120 after %d bytes", pre)
		fp = append(fp, fmt.Sprint("pre", pre))
		// padded customizer must behave like the explicitly zero-padded one
		var padded [12]byte
		copy(padded[:], cust)
		q, err := random.NewChacha20PRG(seed, padded[:])
		if err != nil {
			viol("ctor", "ctor.valid.rejected", "padded customizer rejected: %v", err)
			return out
		}
		a, b := make([]byte, 100), make([]byte, 100)
		p2, _ := newPRG()
		p2.Read(a)
		q.Read(b)
		if !bytes.Equal(a, b) || !bytes.Equal(a, m.stream(0, 100)) {
			viol("keystream", "keystream.mismatch", "short customizer is not zero padded")
		}
		out.SimTime["keystream_bytes"] += 100 + pre
		return out

	case 1:
		// store/restore at every byte offset of a window, exhaustively
		lo := 0
		hi := 160
		if o.Tier == "thorough" {
			hi = 1100
		}
		if c.Bool(1, 4, "farwindow") {
			// a window far into the stream (block counter > 2^16, > 2^24), still cheap because
			// we reach it by restoring a hand-made state: seed||customizer||counter
			lo = []int{1 << 22, 1<<30 - 70, 1<<32 - 100, 1<<36 + 5, 1<<38 - 420}[c.Choose(5, "farbase")]
			hi = lo + 140
			if lo == 1<<38-420 {
				hi = lo + 215 // the last offset from which every read below stays inside the 2^38-byte stream
			}
			out.Params["far_window_base"] = lo
		}
		out.Params["window"] = []int{lo, hi}
		out.Nontrivial = true
		p, err := newPRG()
		if err != nil {
			viol("ctor", "ctor.valid.rejected", "%v", err)
			return out
		}
		var cur uint64
		if lo > 0 {
			st := append(append(append([]byte(nil), seed...), make([]byte, 12)...), make([]byte, 8)...)
			copy(st[32:44], cust)
			binary.LittleEndian.PutUint64(st[44:], uint64(lo))
			q, err := random.RestoreChacha20PRG(st)
			if err != nil {
				viol("restore", "restore.valid.rejected", "%v", err)
				return out
			}
			p = q
			cur = uint64(lo)
		}
		chunk := sub
		for off := lo; off <= hi; off++ {
			// advance p to exactly off with seeded chunking
			for cur < uint64(off) {
				k := 1 + chunk.Intn(int(uint64(off)-cur))
				b := make([]byte, k)
				p.Read(b)
				if !bytes.Equal(b, m.stream(cur, k)) {
					viol("keystream", "keystream.mismatch", "Read(%d) at offset %d differs from RFC 8439 keystream", k, cur)
					return out
				}
				cur += uint64(k)
			}
			st := p.Store()
			if ctr, ok := counterOf(st); !ok || ctr != cur {
				viol("store", "store.counter", "Store() after %d bytes has counter %d / len %d", cur, ctr, len(st))
				return out
			}
			q, err := random.RestoreChacha20PRG(st)
			if err != nil {
				viol("restore", "restore.valid.rejected", "offset %d: %v", off, err)
				return out
			}
			out.Faults["crash_restart"]++
			if !bytes.Equal(q.Store(), st) {
				viol("restore", "restore.store.differs", "Store() of the generator restored at offset %d differs", off)
				return out
			}
			for _, k := range []int{1, 63, 64, 65, 200} {
				// fresh restore for each size so that both Read paths start exactly at off
				r, _ := random.RestoreChacha20PRG(st)
				b := make([]byte, k)
				r.Read(b)
				if !bytes.Equal(b, m.stream(cur, k)) {
					viol("restore", "restore.continuation", "restored at offset %d, Read(%d) is not the continuation of the keystream", off, k)
					return out
				}
			}
			// restoring twice in a row, and restoring a restored generator after some output
			b := make([]byte, 70)
			q.Read(b[:5])
			q2, _ := random.RestoreChacha20PRG(q.Store())
			q2.Read(b[5:])
			if !bytes.Equal(b, m.stream(cur, 70)) {
				viol("restore", "restore.continuation", "restore of a restored generator at offset %d+5 diverges", off)
				return out
			}
			out.SimTime["keystream_bytes"] += 1 + 63 + 64 + 65 + 200 + 70
		}
		{
			// the very last block of the documented range (every sweep run): hand-made states, one byte read
			for _, off := range []uint64{1<<38 - 64, 1<<38 - 63, 1<<38 - 33, 1<<38 - 2, 1<<38 - 1} {
				st := append(append(append([]byte(nil), seed...), make([]byte, 12)...), make([]byte, 8)...)
				copy(st[32:44], cust)
				binary.LittleEndian.PutUint64(st[44:], off)
				failed := ""
				func() {
					defer func() {
						if r := recover(); r != nil {
							failed = fmt.Sprintf("panic: %v", r)
						}
					}()
					q, err := random.RestoreChacha20PRG(st)
					if err != nil || q == nil {
						failed = fmt.Sprintf("rejected: %v", err)
						return
					}
					if !bytes.Equal(q.Store(), st) {
						failed = "Store() differs"
						return
					}
					b := make([]byte, 1)
					q.Read(b)
					if !bytes.Equal(b, m.stream(off, 1)) {
						failed = "Read(1) is not the keystream byte"
					}
				}()
				if failed != "" {
					viol("restore", "restore.lastblock", "state stored at offset 2^38-%d (inside the last block of the stream): %s", (uint64(1)<<38)-off, failed)
					return out
				}
				out.Faults["crash_restart"]++
			}
		}
		ev("offset sweep [%d,%d]: store/restore exact at every offset", lo, hi)
		fp = append(fp, fmt.Sprint("sweep", lo, hi, chunk.Intn(1<<30)))
		return out
	}

	// ---- mode 0: history with crashes and disk faults ------------------------------
	nops := c.Range(4, 40, "nops")
	wRead := 6
	wDerived := c.Choose(4, "w_derived")
	wCkpt := 1 + c.Choose(4, "w_ckpt")
	wCrash := c.Choose(4, "w_crash")
	faultsOn := c.Bool(1, 2, "diskfaults")
	out.Params["nops"] = nops
	out.Params["weights"] = map[string]int{"read": wRead, "derived": wDerived, "ckpt": wCkpt, "crash": wCrash}
	out.Params["disk_faults"] = faultsOn

	p, err := newPRG()
	if err != nil {
		viol("ctor", "ctor.valid.rejected", "%v", err)
		return out
	}
	twin, _ := newPRG()

	var ops []op        // consuming operations executed so far
	var results [][]byte // their results at first execution
	var off uint64      // model offset (bytes consumed)
	var disk []ckpt     // disk[len-1] is what the file currently holds; older = previous good copies
	good := func() *ckpt {
		for i := len(disk) - 1; i >= 0; i-- {
			if len(disk[i].bytes) == 52 {
				return &disk[i]
			}
		}
		return nil
	}

	resync := func(what string) bool {
		st := store(p)
		ctr, ok := counterOf(st)
		if !ok {
			viol("store", "store.len", "Store() returned %d bytes", len(st))
			return false
		}
		if ctr < off {
			viol("store", "store.counter", "byte counter went backwards after %s: %d < %d", what, ctr, off)
			return false
		}
		off = ctr
		return true
	}

	// write-back: the consumer keeps the slice returned by Store() and hands it to the disk only
	// some operations later (a buffered write). What reaches the disk must still be the state at
	// the moment Store() was called: the returned slice is a snapshot, not a view.
	type heldWrite struct {
		held, want []byte
		opIdx      int
		off        uint64
		after      int
	}
	var heldWrites []heldWrite
	flushHeld := func(all bool) bool {
		keep := heldWrites[:0]
		for _, h := range heldWrites {
			h.after--
			if h.after > 0 && !all {
				keep = append(keep, h)
				continue
			}
			if !bytes.Equal(h.held, h.want) {
				viol("store", "store.result-mutated", "the slice returned by Store() at offset %d changed while the generator was used further (it must be a snapshot)", h.off)
				return false
			}
			disk = append(disk, ckpt{bytes: append([]byte(nil), h.held...), opIdx: h.opIdx, off: h.off})
			ev("buffered checkpoint of op %d offset %d reaches the disk", h.opIdx, h.off)
		}
		heldWrites = keep
		return true
	}
	for step := 0; step < nops; step++ {
		if len(heldWrites) > 0 && !flushHeld(false) {
			return out
		}
		k := c.Weighted([]int{wRead, wDerived, wCkpt, wCrash}, "op")
		if k == 3 && len(heldWrites) > 0 {
			// a crash loses buffered writes; the held slices are still checked
			for _, h := range heldWrites {
				if !bytes.Equal(h.held, h.want) {
					viol("store", "store.result-mutated", "the slice returned by Store() at offset %d changed while the generator was used further (it must be a snapshot)", h.off)
					return out
				}
			}
			heldWrites = nil
			out.Faults["lost_buffered_write"]++
		}
		switch k {
		case 0, 1:
			var oo op
			if k == 0 {
				sz := readSizes[c.Choose(len(readSizes), "readsize")]
				if c.Bool(1, 5, "readrand") {
					sz = c.Range(0, 300, "readlen")
				} else if c.Bool(1, 40, "readbig") {
					sz = 4096
				} else if c.Bool(1, 120, "readhuge") {
					// bulk reads (tens of thousands of blocks), block-aligned or not
					sz = 65536 + 4096*c.Choose(3, "readhuge.k") + c.Choose(65, "readhuge.r")
					out.Faults["read.huge"]++
				}
				oo = op{kind: "read", a: sz}
			} else {
				switch c.Choose(5, "derived") {
				case 0:
					oo = op{kind: "uintn", a: 1 + c.Choose(1000, "n")}
					if c.Bool(1, 4, "bign") {
						oo.a = 1<<31 + c.Choose(1<<30, "nbig")
					} else if c.Bool(1, 3, "pow2n") {
						// bounds at the bit-length and byte-length boundaries: 2^k - 1, 2^k, 2^k + 1
						k := 1 + c.Choose(62, "pow2.k")
						oo.a = (1 << k) + c.Choose(3, "pow2.d") - 1
					}
				case 1:
					oo = op{kind: "perm", a: c.Range(0, 20, "n")}
				case 2:
					n := c.Range(0, 20, "n")
					oo = op{kind: "subperm", a: n, b: c.Range(0, n, "m")}
				case 3:
					oo = op{kind: "shuffle", a: c.Range(0, 20, "n")}
				default:
					n := c.Range(0, 20, "n")
					oo = op{kind: "samples", a: n, b: c.Range(0, n, "m")}
				}
			}
			r1, e1 := exec(p, oo)
			r2, e2 := exec(twin, oo)
			ev("op %s -> %d bytes", oo, len(r1))
			fp = append(fp, oo.kind, fmt.Sprint(sizeClass(oo.a)))
			if e1 != nil || e2 != nil {
				viol("ops", "op.error", "%s failed: %v / %v", oo, e1, e2)
				return out
			}
			if !bytes.Equal(r1, r2) {
				viol("twin", "twin.diverged", "%s differs from the never-crashed twin", oo)
				return out
			}
			if oo.kind == "read" {
				if !bytes.Equal(r1, m.stream(off, oo.a)) {
					viol("keystream", "keystream.mismatch", "Read(%d) at offset %d differs from the RFC 8439 keystream", oo.a, off)
					return out
				}
				off += uint64(oo.a)
				out.SimTime["keystream_bytes"] += oo.a
			} else if !resync(oo.String()) {
				return out
			}
			ops = append(ops, oo)
			results = append(results, r1)
		case 2:
			if c.Bool(1, 4, "writeback") {
				held := p.Store() // kept as returned: no copy, no scribble
				heldWrites = append(heldWrites, heldWrite{held: held, want: append([]byte(nil), held...), opIdx: len(ops), off: off, after: 1 + c.Choose(3, "writeback.after")})
				ev("checkpoint at op %d offset %d: buffered, written later", len(ops), off)
				out.Faults["buffered_write"]++
				fp = append(fp, "ckpt-buffered")
				continue
			}
			st := store(p)
			if !bytes.Equal(st, twin.Store()) {
				viol("twin", "twin.store", "Store() differs from the never-crashed twin after %d ops", len(ops))
				return out
			}
			if ctr, ok := counterOf(st); !ok || ctr != off {
				viol("store", "store.counter", "Store() counter %d, model offset %d", ctr, off)
				return out
			}
			if !bytes.Equal(st[:32], seed) || !bytes.Equal(st[32:32+clen], cust) {
				viol("store", "store.layout", "Store() does not start with seed||customizer")
				return out
			}
			f := 0
			if faultsOn {
				f = c.Weighted([]int{5, 2, 2, 2}, "diskfault")
			}
			switch f {
			case 0:
				disk = append(disk, ckpt{bytes: st, opIdx: len(ops), off: off})
				ev("checkpoint at op %d offset %d: durable", len(ops), off)
				fp = append(fp, "ckpt")
			case 1:
				ev("checkpoint at op %d offset %d: LOST write (old file survives)", len(ops), off)
				out.Faults["lost_write"]++
				out.Nontrivial = true
				fp = append(fp, "ckpt-lost")
			case 2:
				l := c.Choose(52, "shortlen")
				disk = append(disk, ckpt{bytes: append([]byte(nil), st[:l]...), opIdx: len(ops), off: off})
				ev("checkpoint at op %d offset %d: SHORT write, %d of 52 bytes reached the disk", len(ops), off, l)
				out.Faults["short_write"]++
				out.Nontrivial = true
				fp = append(fp, "ckpt-short")
			case 3:
				extra := 1 + c.Choose(52, "extralen")
				disk = append(disk, ckpt{bytes: append(append([]byte(nil), st...), st[:extra]...), opIdx: len(ops), off: off})
				ev("checkpoint at op %d offset %d: TORN write over a longer old file, %d stale bytes follow", len(ops), off, extra)
				out.Faults["torn_write_stale_tail"]++
				out.Nontrivial = true
				fp = append(fp, "ckpt-torn")
			}
		case 3:
			// crash: the in-memory generator is gone; rebuild from what the disk holds
			out.Faults["crash_restart"]++
			out.Nontrivial = true
			fp = append(fp, "crash")
			if len(disk) > 0 && len(disk[len(disk)-1].bytes) != 52 {
				bad := disk[len(disk)-1].bytes
				var q prg
				var rerr error
				func() {
					defer func() {
						if r := recover(); r != nil {
							rerr = nil
							viol("restore", "restore.badlen.panic", "RestoreChacha20PRG(len %d) panicked: %v", len(bad), r)
						}
					}()
					qq, e := random.RestoreChacha20PRG(bad)
					rerr = e
					if qq != nil {
						q = qq
					}
				}()
				if rerr == nil || q != nil {
					viol("restore", "restore.badlen.accepted", "damaged checkpoint of %d bytes accepted", len(bad))
					return out
				}
				ev("crash: damaged checkpoint (%d bytes) rejected by RestoreChacha20PRG", len(bad))
				out.Probes["damaged_checkpoint_rejected"]++
			}
			g := good()
			from := 0
			if g == nil {
				q, err := newPRG()
				if err != nil {
					viol("ctor", "ctor.valid.rejected", "%v", err)
					return out
				}
				p = q
				ev("crash: no usable checkpoint, restart from the seed and re-execute %d ops", len(ops))
				out.Probes["restart_from_seed"]++
			} else {
				q, err := restore(g.bytes)
				if err != nil {
					viol("restore", "restore.valid.rejected", "%v", err)
					return out
				}
				if !bytes.Equal(q.Store(), g.bytes) {
					viol("restore", "restore.store.differs", "Store() of a freshly restored generator differs from the checkpoint")
					return out
				}
				p = q
				from = g.opIdx
				ev("crash: restored checkpoint of op %d (offset %d), re-execute %d ops", g.opIdx, g.off, len(ops)-from)
				out.Probes["restart_from_checkpoint"]++
				if g.off%64 != 0 {
					out.Probes["restore_mid_block"]++
				}
			}
			for i := from; i < len(ops); i++ {
				r, e := exec(p, ops[i])
				if e != nil {
					viol("ops", "op.error", "%s failed after restore: %v", ops[i], e)
					return out
				}
				if !bytes.Equal(r, results[i]) {
					viol("restore", "restore.continuation", "after restore, re-executed op #%d %s returns different output than before the crash", i, ops[i])
					return out
				}
				out.Probes["reexecuted_ops"]++
			}
			if !bytes.Equal(p.Store(), twin.Store()) {
				viol("twin", "twin.store", "after crash recovery Store() differs from the never-crashed twin")
				return out
			}
		}
	}
	// final cross-check: one more read from both
	r1, _ := exec(p, op{kind: "read", a: 97})
	r2, _ := exec(twin, op{kind: "read", a: 97})
	if !bytes.Equal(r1, r2) || !bytes.Equal(r1, m.stream(off, 97)) {
		viol("keystream", "keystream.mismatch", "final Read(97) at offset %d differs", off)
	}
	out.SimTime["keystream_bytes"] += 97
	out.SimTime["ops"] += len(ops)
	return out
}

func sizeClass(n int) int {
	switch {
	case n == 0:
		return 0
	case n < 64:
		return 1
	case n == 64:
		return 2
	case n < 128:
		return 3
	case n == 128:
		return 4
	case n < 4096:
		return 5
	}
	return 6
}
