#!/usr/bin/env python3
"""Inserts scheduler yields into the C glue code of a SCRATCH COPY of onflow/crypto.

usage: cinstr.py <scratch repo root>

For bls_core.c, bls12381_utils.c, bls_thresholdsign_core.c and dkg_core.c the clang AST
(`-ast-dump=json`) gives the byte offset of every statement that is a direct child of a
compound statement of a function defined in that file; the text `SIMRT_Y(<line>);` is inserted
there (line numbers are preserved). SIMRT_Y calls back into the Go scheduler (simrtYieldC,
exported by the simrt package) through a weak symbol, so that a task can be descheduled in
the middle of a C function and another task can enter C code meanwhile: races between two C
functions (static buffers, in-place normalisation) become schedules the simulator can pick.

`#cgo nocallback` directives (a promise that a C function never calls back into Go) are
removed from the scratch copy's Go files, since the yields do call back; should one survive,
that function and everything it (transitively) calls is left without yields.
"""
import json, os, re, subprocess, sys

FILES = ["bls_core.c", "bls12381_utils.c", "bls_thresholdsign_core.c", "dkg_core.c"]
FLAGS = ["-I.", "-Iblst_src", "-Iblst_src/build", "-D__BLST_CGO__", "-D__ADX__", "-Wno-everything"]
SKIP_KINDS = {"CaseStmt", "DefaultStmt", "LabelStmt", "NullStmt"}


def nocallback_functions(root):
    """`#cgo nocallback f` promises the runtime that f never calls back into Go. The yields do
    call back, so the directives are REMOVED from the scratch copy (they are optimisation hints:
    removing them does not change behaviour; `#cgo noescape` is kept). Returns the functions that
    still carry the directive afterwards (none, unless the pattern changes)."""
    names = set()
    for fn in os.listdir(root):
        if fn.endswith(".go"):
            p = os.path.join(root, fn)
            text = open(p).read()
            new = re.sub(r"(?m)^(//\s*)#cgo\s+nocallback\s+\w+\s*$", r"\1", text)
            if new != text:
                open(p, "w").write(new)
            for m in re.finditer(r"#cgo\s+nocallback\s+(\w+)", new):
                names.add(m.group(1))
    return names


def walk(node, state, fn_stack, out, parent_kind=None):
    """Depth-first in document order; tracks the current file of locations the way clang's
    JSON dumper elides it (a 'file' key only appears when the file changes)."""
    loc = node.get("loc")
    if isinstance(loc, dict):
        track(loc, state)
    rng = node.get("range")
    begin_file = state["file"]
    b = {}
    if isinstance(rng, dict):
        b = rng.get("begin", {})
        track(b, state)
        begin_file = state["file"]
    kind = node.get("kind")
    if parent_kind == "CompoundStmt" and fn_stack and kind not in SKIP_KINDS:
        if "offset" in b and "expansionLoc" not in b and "spellingLoc" not in b and begin_file == out["main"]:
            out["sites"].append((fn_stack[-1], b["offset"]))
    if kind == "FunctionDecl" and any(c.get("kind") == "CompoundStmt" for c in node.get("inner", [])):
        fn_stack = fn_stack + [node.get("name")]
    if kind == "CallExpr" and fn_stack:
        callee = find_callee(node)
        if callee:
            out["calls"].setdefault(fn_stack[-1], set()).add(callee)
    for c in node.get("inner", []):
        walk(c, state, fn_stack, out, kind)
    if isinstance(rng, dict):
        track(rng.get("end", {}), state)


def track(loc, state):
    for k in ("spellingLoc", "expansionLoc"):
        if k in loc and isinstance(loc[k], dict):
            track(loc[k], state)
    if "file" in loc:
        state["file"] = loc["file"]


def find_callee(node):
    for c in node.get("inner", []):
        if c.get("kind") == "DeclRefExpr":
            ref = c.get("referencedDecl") or {}
            return ref.get("name")
        r = find_callee(c) if c.get("kind") in ("ImplicitCastExpr", "ParenExpr") else None
        if r:
            return r
    return None


def main():
    root = sys.argv[1]
    nocb = nocallback_functions(root)
    per_file, calls_all, defs_all = {}, {}, {}
    for f in FILES:
        p = subprocess.run(["clang", "-fsyntax-only", "-Xclang", "-ast-dump=json"] + FLAGS + [f], cwd=root,
                           stdout=subprocess.PIPE, stderr=subprocess.PIPE)
        if p.returncode != 0:
            print("clang failed on", f, p.stderr.decode()[-2000:])
            sys.exit(1)
        ast = json.loads(p.stdout)
        out = {"sites": [], "calls": {}, "main": f}
        sys.setrecursionlimit(100000)
        walk(ast, {"file": None}, [], out)
        per_file[f] = out
        for k, v in out["calls"].items():
            calls_all.setdefault(k, set()).update(v)
    # transitive closure of the callees of nocallback functions
    banned, todo = set(nocb), list(nocb)
    while todo:
        x = todo.pop()
        for y in calls_all.get(x, ()):
            if y not in banned:
                banned.add(y)
                todo.append(y)
    total = 0
    for f in FILES:
        path = os.path.join(root, f)
        src = open(path, "rb").read()
        text_lines = None
        ins = []
        seen = set()
        for fn, off in per_file[f]["sites"]:
            if fn in banned or off in seen:
                continue
            # the statement must start in this very file: check that the offset is inside and looks sane
            if off >= len(src):
                continue
            seen.add(off)
            ins.append(off)
        # keep only offsets that belong to functions defined in this file (defs file check)
        ins.sort()
        # compute line numbers from offsets
        out = bytearray()
        last = 0
        for off in ins:
            line = src.count(b"\n", 0, off) + 1
            out += src[last:off]
            out += b"SIMRT_Y(%d);" % line
            last = off
        out += src[last:]
        open(path, "wb").write(bytes(out))
        total += len(ins)
    open(os.path.join(root, "simrt_c.h"), "w").write(
        "#ifndef SIMRT_C_H\n#define SIMRT_C_H\n"
        "#ifndef __ASSEMBLER__\n"
        "extern void simrtYieldC(int) __attribute__((weak));\n"
        "#define SIMRT_Y(line) do { if (simrtYieldC) simrtYieldC(line); } while (0)\n"
        "#endif\n"
        "#endif\n")
    print("cinstr files=%d csites=%d banned_functions=%d" % (len(FILES), total, len(banned)))


if __name__ == "__main__":
    main()
