// Package thrmodel is the sequential reference model of the stateful threshold-signature
// object (ThresholdSignatureInspector / Participant), written from the interface
// documentation in thresholdsign.go. It is used operation by operation by thrnet (C06) and
// as the porcupine model by thrconc (C18).
package thrmodel

import (
	"fmt"
	"sort"
	"strings"
)

// Share is a candidate signature share with the harness' knowledge about it.
type Share struct {
	Bytes  []byte
	Kind   string // true | wrongsigner | othermsg | notG1 | offcurve | xlarge | badheader | len0 | len47 | len49 | random
	TrueOf int    // index of the participant whose genuine share this is, -1 otherwise
}

func (s Share) ValidFor(orig int) bool { return s.TrueOf >= 0 && s.TrueOf == orig }

// Op is one API call.
type Op struct {
	Name  string // TrustedAdd VerifyAndAdd HasShare EnoughShares VerifyShare VerifyThresholdSignature SignShare ThresholdSignature
	Orig  int
	Share int // index into the share pool, -1 if none
	Sig   int // 0: the group signature, 1: another valid-looking signature, 2: garbage (VerifyThresholdSignature)
	// Reuse: the caller passes the share in the SAME buffer it used for its previous call (a
	// receive buffer; legal after a call that did not retain the share). Ignored by the model.
	Reuse bool
}

func (o Op) String() string {
	switch o.Name {
	case "TrustedAdd", "VerifyAndAdd", "VerifyShare":
		return fmt.Sprintf("%s(%d, share#%d)", o.Name, o.Orig, o.Share)
	case "HasShare":
		return fmt.Sprintf("HasShare(%d)", o.Orig)
	case "VerifyThresholdSignature":
		return fmt.Sprintf("VerifyThresholdSignature(sig#%d)", o.Sig)
	}
	return o.Name + "()"
}

// Res is the observable result of a call, normalised.
type Res struct {
	B1, B2 bool
	Err    string // "" | input | duplicate | notenough | invalidsig | other
	Sig    string // hex of a returned signature ("" if none)
}

func (r Res) String() string {
	return fmt.Sprintf("(%v,%v,err=%q,sig=%s)", r.B1, r.B2, r.Err, r.Sig)
}

// State is the abstract state: retained shares and the cache flag.
type State struct {
	Held   map[int]int // signer index -> share pool index
	Cached bool
}

func NewState() State { return State{Held: map[int]int{}} }

func (s State) Clone() State {
	n := State{Held: make(map[int]int, len(s.Held)), Cached: s.Cached}
	for k, v := range s.Held {
		n.Held[k] = v
	}
	return n
}

func (s State) Key() string {
	var k []string
	for i, v := range s.Held {
		k = append(k, fmt.Sprintf("%d:%d", i, v))
	}
	sort.Strings(k)
	return fmt.Sprintf("%s|%v", strings.Join(k, ","), s.Cached)
}

// Env is the immutable context of a session.
type Env struct {
	N, T     int
	Pool     []Share
	GroupSig string // hex of the unique valid group signature
	MyShare  string // hex of the share SignShare must return (participants)
}

// Step applies op to state s and says whether result r is allowed; it returns the next state.
// Where the documentation leaves the error class open (reconstruction with an invalid
// retained share fails with errInvalidSignature or invalidInputsError) both are accepted.
func (e *Env) Step(s State, o Op, r Res) (bool, State) {
	inRange := o.Orig >= 0 && o.Orig < e.N
	enough := len(s.Held) == e.T+1
	switch o.Name {
	case "HasShare":
		if !inRange {
			return r.Err == "input" && !r.B1, s
		}
		_, has := s.Held[o.Orig]
		return r.Err == "" && r.B1 == has, s
	case "EnoughShares":
		return r.Err == "" && r.B1 == enough, s
	case "VerifyShare":
		if !inRange {
			return r.Err == "input" && !r.B1, s
		}
		return r.Err == "" && r.B1 == e.Pool[o.Share].ValidFor(o.Orig), s
	case "VerifyThresholdSignature":
		return r.Err == "" && r.B1 == (o.Sig == 0), s
	case "SignShare":
		return r.Err == "" && r.Sig == e.MyShare, s
	case "TrustedAdd":
		if !inRange {
			return r.Err == "input" && !r.B1, s
		}
		if _, has := s.Held[o.Orig]; has {
			return r.Err == "duplicate" && !r.B1, s
		}
		if enough {
			return r.Err == "" && r.B1, s
		}
		n := s.Clone()
		n.Held[o.Orig] = o.Share
		return r.Err == "" && r.B1 == (len(n.Held) == e.T+1), n
	case "VerifyAndAdd":
		if !inRange {
			return r.Err == "input" && !r.B1 && !r.B2, s
		}
		if _, has := s.Held[o.Orig]; has {
			return r.Err == "duplicate" && !r.B1 && !r.B2, s
		}
		valid := e.Pool[o.Share].ValidFor(o.Orig)
		if valid && !enough {
			n := s.Clone()
			n.Held[o.Orig] = o.Share
			return r.Err == "" && r.B1 && r.B2 == (len(n.Held) == e.T+1), n
		}
		return r.Err == "" && r.B1 == valid && r.B2 == enough, s
	case "ThresholdSignature":
		if s.Cached {
			return r.Err == "" && r.Sig == e.GroupSig, s
		}
		if !enough {
			return r.Err == "notenough" && r.Sig == "", s
		}
		allValid := true
		for i, p := range s.Held {
			if !e.Pool[p].ValidFor(i) {
				allValid = false
			}
		}
		if allValid {
			n := s.Clone()
			n.Cached = true
			return r.Err == "" && r.Sig == e.GroupSig, n
		}
		// An invalid share was retained through TrustedAdd: the documentation promises an error
		// INSTEAD OF AN INVALID SIGNATURE. It does not promise an error in every case: shares
		// that are invalid for their signer can still interpolate to the group signature (e.g.
		// with n=4,t=3 the Lagrange coefficients of signers 0 and 2 are equal, so swapping
		// their shares changes nothing). The result is then the valid, unique group signature,
		// which the property allows; it is cached like any other success.
		if r.Err == "" && r.Sig == e.GroupSig {
			n := s.Clone()
			n.Cached = true
			return true, n
		}
		return (r.Err == "invalidsig" || r.Err == "input") && r.Sig == "", s
	}
	return false, s
}
