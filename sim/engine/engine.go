// Package engine holds what all simulation engines share: the result types, the worker
// loop (many seeded runs, counters, in-process shrinking, replay) and the JSON report
// consumed by bin/verif.
package engine

import (
	"crypto/sha256"
	"encoding/hex"
	"encoding/json"
	"flag"
	"fmt"
	"hash/fnv"
	"os"
	"sort"
	"strconv"
	"strings"
	"sync/atomic"
	"syscall"
	"time"

	"verifsim/choice"
)

// Viol is one oracle failure inside a run.
type Viol struct {
	Property string `json:"property"`
	Oracle   string `json:"oracle"` // short oracle id, e.g. "agree.disq"
	Class    string `json:"class"`  // stable class string used for shrinking and known-finding matching
	Detail   string `json:"detail"`
}

// Out is what one simulated run returns.
type Out struct {
	Params      map[string]any
	Fingerprint uint64 // schedule+fault fingerprint
	Nontrivial  bool   // at least one fault injected or one non-default scheduling decision
	Faults      map[string]int
	Probes      map[string]int
	SimTime     map[string]int // engine-specific units of simulated time
	Viols       []Viol
	Trace       []string // human readable event trace (only if Opt.Trace)
	EventHash   string   // hash of the complete event log (determinism self-test)
}

// Opt are per-run options.
type Opt struct {
	Property string
	Tier     string
	Trace    bool
	Mode     string // engine specific override
}

// Engine is a simulator.
type Engine interface {
	Name() string
	// Properties this engine has oracles for.
	Run(c *choice.Src, o Opt) Out
}

// ReportViolation is a violation as written to the report / replay file.
type ReportViolation struct {
	Property   string         `json:"property"`
	Engine     string         `json:"engine"`
	Oracle     string         `json:"oracle"`
	Class      string         `json:"class"`
	Detail     string         `json:"detail"`
	Seed       uint64         `json:"seed"`
	Run        int            `json:"run"`
	Mode       string         `json:"mode,omitempty"`
	Tier       string         `json:"tier"`
	Params     map[string]any `json:"params"`
	Choices    []choice.Entry `json:"choices"`
	OrigLen    int            `json:"choices_before_shrinking"`
	ShrinkExec int            `json:"shrink_executions"`
	Trace      []string       `json:"trace"`
	AllViols   []Viol         `json:"all_violations_in_minimised_run"`
}

// Report is the JSON a worker writes.
type Report struct {
	Engine       string            `json:"engine"`
	Property     string            `json:"property"`
	Tier         string            `json:"tier"`
	Seed         uint64            `json:"seed"`
	FirstRun     int               `json:"first_run"`
	Stride       int               `json:"stride"`
	Runs         int               `json:"runs"`
	Nontrivial   int               `json:"nontrivial_runs"`
	Fingerprints []uint64          `json:"fingerprints"` // of non-trivial runs (deduplicated)
	Faults       map[string]int    `json:"faults"`
	Probes       map[string]int    `json:"probes"`
	SimTime      map[string]int    `json:"sim_time"`
	Samples      []map[string]any  `json:"samples"`
	Violations   []ReportViolation `json:"violations"`
	OtherViols   map[string]int    `json:"violations_of_other_properties"`
	HarnessErrs  []string          `json:"harness_errors"` // trouble of the simulator itself (stall, step cap): exit 2, never a VIOLATION
	ClassCounts  map[string]int    `json:"violation_class_counts"` // runs per violation class of this property (all runs, not only the reported one)
	EventHashes  map[string]string `json:"event_hashes,omitempty"`
	WallS        float64           `json:"wall_s"`
	Stopped      string            `json:"stopped"`
}

// HashStrings gives a 64-bit fingerprint of a list of strings.
func HashStrings(parts ...string) uint64 {
	h := fnv.New64a()
	for _, p := range parts {
		h.Write([]byte(p))
		h.Write([]byte{0})
	}
	return h.Sum64()
}

// HexHash returns the hex SHA-256 of the joined lines.
func HexHash(lines []string) string {
	h := sha256.New()
	for _, l := range lines {
		h.Write([]byte(l))
		h.Write([]byte{'\n'})
	}
	return hex.EncodeToString(h.Sum(nil))
}

func addMap(dst, src map[string]int) {
	for k, v := range src {
		dst[k] += v
	}
}

func classOf(vs []Viol, prop string) (string, *Viol) {
	for i := range vs {
		if vs[i].Property == prop {
			return vs[i].Class, &vs[i]
		}
	}
	return "", nil
}

func hasClass(vs []Viol, prop, class string) *Viol {
	for i := range vs {
		if vs[i].Property == prop && vs[i].Class == class {
			return &vs[i]
		}
	}
	return nil
}

// CurrentCall is set by the engines right before each call into the library (a short
// description); the per-run watchdog prints it when a run does not finish.
var CurrentCall atomic.Value

// armWatchdog starts the wall-clock watchdog of one simulated run: a library call that never
// returns (a lock taken twice, a loop that does not terminate) would otherwise hang the worker
// until the driver's batch watchdog fires, which is "harness trouble" (exit 2), not a finding.
// The worker instead says which run and which call hung and exits with status 3; the driver
// re-executes that run in a fresh process and reports the hang as a violation of the run.
func armWatchdog(run int, limit time.Duration) *time.Timer {
	return time.AfterFunc(limit, func() {
		cc, _ := CurrentCall.Load().(string)
		if stallIsHarnessTrouble {
			// engines that run the library under the simrt scheduler: deadlocks on the library's
			// locks are found by the scheduler's own model; a run that stalls beyond that is a task
			// blocked on a primitive the scheduler does not model (a channel, sync.Cond, ...), which
			// says nothing about the property: harness trouble (exit 2), never a violation
			fmt.Fprintf(os.Stderr, "\nVERIF-STALL run=%d: the simulation did not finish within %s (a task blocked on a primitive the scheduler does not model?); last operation: %s\n", run, limit, cc)
			os.Exit(2)
		}
		fmt.Fprintf(os.Stderr, "\nVERIF-HANG run=%d: the run did not finish within %s; last call into the library: %s\n", run, limit, cc)
		os.Exit(3)
	})
}

var stallIsHarnessTrouble bool

// Staller is implemented by engines for which a stalled run is harness trouble, not a finding.
type Staller interface{ StallIsHarnessTrouble() bool }

// RunOne executes run number `run` of (seed, property) in search mode.
func RunOne(e Engine, seed uint64, run int, o Opt) (Out, *choice.Src) {
	c := choice.New(choice.SeedFor(seed, e.Name()+"/"+o.Property+"/"+o.Mode, run))
	out := e.Run(c, o)
	return out, c
}

// Main is the worker entry point shared by the worker binaries.
func Main(engines map[string]Engine) {
	var (
		engName  = flag.String("engine", "", "engine name")
		prop     = flag.String("property", "", "property id")
		tier     = flag.String("tier", "quick", "quick|thorough")
		mode     = flag.String("mode", "", "engine specific mode")
		seed     = flag.Uint64("seed", 1, "VERIF_SEED")
		first    = flag.Int("first", 0, "first run index")
		stride   = flag.Int("stride", 1, "run index stride")
		runs     = flag.Int("runs", 100, "number of runs")
		budget   = flag.Float64("budget", 0, "wall-clock cap in seconds (0 = none)")
		out      = flag.String("out", "", "report file")
		replay   = flag.String("replay", "", "replay file (a ReportViolation JSON)")
		hashes   = flag.Bool("hashes", false, "record per-run event hashes (determinism self-test)")
		noShrink = flag.Bool("noshrink", false, "do not shrink violations")
		maxViol  = flag.Int("maxviol", 5, "stop after this many distinct violation classes")
		progress = flag.String("progress", "", "file that receives the current run index before each run (for crash attribution)")
		single   = flag.Int("single", -1, "execute only this run index with tracing and print the trace")
		chfile   = flag.String("choices", "", "with -single: JSON choice log to replay instead of searching")
		hang     = flag.Duration("hang", 150*time.Second, "wall-clock limit of one simulated run (a run that exceeds it is reported as a hang: exit status 3)")
		chlog    = flag.String("chlog", "", "with -single: stream every decision to this file as it is taken (one JSON object per line; survives a run that kills the process)")
	)
	flag.Parse()
	e, ok := engines[*engName]
	if !ok {
		fmt.Fprintf(os.Stderr, "unknown engine %q\n", *engName)
		os.Exit(2)
	}
	o := Opt{Property: *prop, Tier: *tier, Mode: *mode}
	if st, ok := e.(Staller); ok {
		stallIsHarnessTrouble = st.StallIsHarnessTrouble()
	}

	if *replay != "" {
		os.Exit(doReplay(e, *replay))
	}
	if *single >= 0 {
		armWatchdog(*single, *hang)
		os.Exit(doSingle(e, *seed, *single, o, *chfile, *chlog, *out))
	}

	start := time.Now()
	rep := Report{Engine: e.Name(), Property: *prop, Tier: *tier, Seed: *seed, FirstRun: *first, Stride: *stride,
		Faults: map[string]int{}, Probes: map[string]int{}, SimTime: map[string]int{}, OtherViols: map[string]int{}, ClassCounts: map[string]int{},
		Fingerprints: []uint64{}, Violations: []ReportViolation{}, Samples: []map[string]any{}}
	if *hashes {
		rep.EventHashes = map[string]string{}
	}
	fps := map[uint64]struct{}{}
	seenClass := map[string]bool{}
	rep.Stopped = "runs"
	var pf *os.File
	if *progress != "" {
		var err error
		pf, err = os.Create(*progress)
		if err != nil {
			fmt.Fprintln(os.Stderr, err)
			os.Exit(2)
		}
		defer pf.Close()
	}
	for k := 0; k < *runs; k++ {
		run := *first + k**stride
		if *budget > 0 && time.Since(start).Seconds() > *budget {
			rep.Stopped = "budget"
			break
		}
		if pf != nil {
			pf.WriteAt([]byte(fmt.Sprintf("%-20d\n", run)), 0)
		}
		wd := armWatchdog(run, *hang)
		res, c := RunOne(e, *seed, run, o)
		wd.Stop()
		rep.Runs++
		addMap(rep.Faults, res.Faults)
		addMap(rep.Probes, res.Probes)
		addMap(rep.SimTime, res.SimTime)
		if res.Nontrivial {
			rep.Nontrivial++
			fps[res.Fingerprint] = struct{}{}
		}
		if *hashes {
			rep.EventHashes[fmt.Sprint(run)] = res.EventHash
		}
		if len(rep.Samples) < 3 && (res.Nontrivial || k == 0) {
			tr, _ := replayLog(e, c.Log, Opt{Property: o.Property, Tier: o.Tier, Mode: o.Mode, Trace: true})
			s := map[string]any{"run": run, "params": res.Params, "trace": clip(tr.Trace, 60)}
			rep.Samples = append(rep.Samples, s)
		}
		for _, v := range res.Viols {
			if v.Property == "HARNESS" {
				if len(rep.HarnessErrs) < 5 {
					rep.HarnessErrs = append(rep.HarnessErrs, fmt.Sprintf("run %d: %s: %s", run, v.Class, v.Detail))
				}
				continue
			}
			if v.Property != *prop {
				rep.OtherViols[v.Property+":"+v.Class]++
			}
		}
		cls, v := classOf(res.Viols, *prop)
		if v != nil {
			rep.ClassCounts[cls]++
		}
		if v == nil || seenClass[cls] {
			continue
		}
		seenClass[cls] = true
		rv := ReportViolation{Property: *prop, Engine: e.Name(), Oracle: v.Oracle, Class: v.Class, Detail: v.Detail,
			Seed: *seed, Run: run, Mode: *mode, Tier: *tier, Params: res.Params, OrigLen: len(c.Log)}
		log := c.Log
		if !*noShrink {
			log, rv.ShrinkExec = shrink(e, o, log, cls)
		}
		final, _ := replayLog(e, log, Opt{Property: o.Property, Tier: o.Tier, Mode: o.Mode, Trace: true})
		for i := 0; i < 5 && strings.HasPrefix(cls, "race:") && hasClass(final.Viols, *prop, cls) == nil; i++ {
			final, _ = replayLog(e, log, Opt{Property: o.Property, Tier: o.Tier, Mode: o.Mode, Trace: true})
		}
		if fv := hasClass(final.Viols, *prop, cls); fv != nil {
			rv.Choices = choice.TrimZeros(log)
			rv.Detail = fv.Detail
			rv.Params = final.Params
			rv.Trace = final.Trace
			rv.AllViols = final.Viols
		} else {
			// shrinking lost the violation (should not happen): report the unshrunk run
			orig, _ := replayLog(e, c.Log, Opt{Property: o.Property, Tier: o.Tier, Mode: o.Mode, Trace: true})
			rv.Choices = c.Log
			rv.Trace = orig.Trace
			rv.AllViols = orig.Viols
		}
		rep.Violations = append(rep.Violations, rv)
		if len(rep.Violations) >= *maxViol {
			rep.Stopped = "maxviol"
			break
		}
	}
	for f := range fps {
		rep.Fingerprints = append(rep.Fingerprints, f)
	}
	sort.Slice(rep.Fingerprints, func(i, j int) bool { return rep.Fingerprints[i] < rep.Fingerprints[j] })
	rep.WallS = time.Since(start).Seconds()
	writeJSON(*out, rep)
}

func clip(t []string, n int) []string {
	if len(t) <= n {
		return t
	}
	r := append([]string(nil), t[:n]...)
	return append(r, fmt.Sprintf("... (%d more events)", len(t)-n))
}

func writeJSON(path string, v any) {
	b, err := json.MarshalIndent(v, "", " ")
	if err != nil {
		fmt.Fprintln(os.Stderr, err)
		os.Exit(2)
	}
	if path == "" {
		os.Stdout.Write(b)
		return
	}
	if err := os.WriteFile(path, b, 0o644); err != nil {
		fmt.Fprintln(os.Stderr, err)
		os.Exit(2)
	}
}

func replayLog(e Engine, log []choice.Entry, o Opt) (Out, *choice.Src) {
	c := choice.Replay(log)
	out := e.Run(c, o)
	return out, c
}

func shrink(e Engine, o Opt, log []choice.Entry, cls string) ([]choice.Entry, int) {
	deadline := time.Now().Add(45 * time.Second)
	// whether the race detector SEES a race of a fixed schedule also depends on runtime-internal
	// state (DESIGN 11.3): a candidate gets three executions, one report is enough (a report is
	// always a true positive), no report means the candidate is rejected
	tries := 1
	if strings.HasPrefix(cls, "race:") {
		tries = 3
	}
	return choice.Shrink(log, 400, func(cand []choice.Entry) (bool, []choice.Entry) {
		for i := 0; i < tries; i++ {
			if time.Now().After(deadline) {
				return false, nil
			}
			out, c := replayLog(e, cand, o)
			if hasClass(out.Viols, o.Property, cls) != nil {
				return true, c.Log
			}
		}
		return false, nil
	})
}

// doReplay re-executes a replay file; exit 1 if the recorded violation class reproduces,
// 0 if it does not (e.g. the defect was fixed), 2 on errors.
func doReplay(e Engine, path string) int {
	b, err := os.ReadFile(path)
	if err != nil {
		fmt.Fprintln(os.Stderr, err)
		return 2
	}
	var rv ReportViolation
	if err := json.Unmarshal(b, &rv); err != nil {
		fmt.Fprintln(os.Stderr, err)
		return 2
	}
	o := Opt{Property: rv.Property, Tier: rv.Tier, Mode: rv.Mode, Trace: true}
	out, c := replayLog(e, rv.Choices, o)
	for i := 0; i < 9 && strings.HasPrefix(rv.Class, "race:") && hasClass(out.Viols, rv.Property, rv.Class) == nil; i++ {
		// race DETECTION for a fixed schedule is probabilistic: re-execute the same schedule
		out, c = replayLog(e, rv.Choices, o)
	}
	for _, l := range out.Trace {
		fmt.Println("  " + l)
	}
	if c.Diverged > 0 {
		fmt.Printf("REPLAY-NOTE: %d choice labels differ from the recording (the code under test changed the shape of the run)\n", c.Diverged)
	}
	if v := hasClass(out.Viols, rv.Property, rv.Class); v != nil {
		fmt.Printf("REPRODUCED property=%s class=%s detail=%s\n", rv.Property, v.Class, v.Detail)
		fmt.Printf("VIOLATION property=%s replay=%s\n", rv.Property, path)
		return 1
	}
	var others []string
	for _, v := range out.Viols {
		others = append(others, v.Property+":"+v.Class)
	}
	fmt.Printf("NOT-REPRODUCED property=%s class=%s (violations in this execution: [%s])\n", rv.Property, rv.Class, strings.Join(others, ", "))
	return 0
}

// doSingle runs one run index (or one choice log) with tracing; used by the driver for
// crash attribution and out-of-process shrinking. Exit 0 always unless the engine crashes;
// the outcome is in the JSON written to `out`.
func doSingle(e Engine, seed uint64, run int, o Opt, chfile, chlog, outPath string) int {
	o.Trace = true
	var res Out
	var c *choice.Src
	var sink func(choice.Entry)
	if chlog != "" {
		f, err := os.Create(chlog)
		if err != nil {
			fmt.Fprintln(os.Stderr, err)
			return 2
		}
		defer f.Close()
		fd := int(f.Fd())
		sink = func(en choice.Entry) {
			// unbuffered on purpose: the process may be killed by the very next statement.
			// No fmt and no os.File method here: the sink is also called from the simrt
			// scheduler while race synchronisation is disabled, where sync.Pool / fdmutex
			// use would look like a race to the detector. Labels are plain ASCII.
			b := make([]byte, 0, 64+len(en.L))
			b = append(b, `{"v":`...)
			b = strconv.AppendInt(b, int64(en.V), 10)
			b = append(b, `,"n":`...)
			b = strconv.AppendInt(b, int64(en.N), 10)
			b = append(b, `,"l":"`...)
			for i := 0; i < len(en.L); i++ {
				ch := en.L[i]
				if ch == '"' || ch == '\\' || ch < 0x20 || ch > 0x7e {
					ch = '_'
				}
				b = append(b, ch)
			}
			b = append(b, '"', '}', '\n')
			syscall.Write(fd, b)
		}
	}
	if chfile != "" {
		b, err := os.ReadFile(chfile)
		if err != nil {
			fmt.Fprintln(os.Stderr, err)
			return 2
		}
		var log []choice.Entry
		if err := json.Unmarshal(b, &log); err != nil {
			fmt.Fprintln(os.Stderr, err)
			return 2
		}
		c = choice.Replay(log)
		c.Sink = sink
		res = e.Run(c, o)
	} else {
		c = choice.New(choice.SeedFor(seed, e.Name()+"/"+o.Property+"/"+o.Mode, run))
		c.Sink = sink
		res = e.Run(c, o)
	}
	writeJSON(outPath, map[string]any{"params": res.Params, "violations": res.Viols, "trace": res.Trace,
		"choices": c.Log, "event_hash": res.EventHash})
	return 0
}
