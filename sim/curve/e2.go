package curve

// Affine arithmetic on E2: y^2 = x^3 + 4(1+i) over Fp2, with math/big only. Used to build
// points that are ON the curve, OUTSIDE G2, and have a small-order component: S = Q + T
// where Q is a genuine G2 point (decompressed from an encoding the library produced) and T
// has small prime order l | h2 (cofactor of G2 in E2(Fp2)).

import (
	"errors"
	"math/big"
	"sync"
)

type E2 struct {
	X, Y fp2
	Inf  bool
}

var (
	zero  = big.NewInt(0)
	b2    = fp2{big.NewInt(4), big.NewInt(4)}
	pm3q  = new(big.Int).Rsh(new(big.Int).Sub(P, big.NewInt(3)), 2) // (p-3)/4
	halfP = new(big.Int).Rsh(new(big.Int).Sub(P, one), 1)           // (p-1)/2
)

func sub2(x, y fp2) fp2 {
	a := new(big.Int).Sub(x.a, y.a)
	b := new(big.Int).Sub(x.b, y.b)
	return fp2{a.Mod(a, P), b.Mod(b, P)}
}
func neg2(x fp2) fp2 { return sub2(fp2{big.NewInt(0), big.NewInt(0)}, x) }
func isZero2(x fp2) bool {
	return x.a.Sign() == 0 && x.b.Sign() == 0
}
func eq2(x, y fp2) bool { return x.a.Cmp(y.a) == 0 && x.b.Cmp(y.b) == 0 }
func inv2(x fp2) fp2 {
	n := norm(x)
	ni := new(big.Int).ModInverse(n, P)
	a := new(big.Int).Mul(x.a, ni)
	b := new(big.Int).Mul(new(big.Int).Neg(x.b), ni)
	return fp2{a.Mod(a, P), b.Mod(b, P)}
}
func exp2(x fp2, e *big.Int) fp2 {
	r := fp2{big.NewInt(1), big.NewInt(0)}
	for i := e.BitLen() - 1; i >= 0; i-- {
		r = mul2(r, r)
		if e.Bit(i) == 1 {
			r = mul2(r, x)
		}
	}
	return r
}

// sqrt2 computes a square root in Fp2 for p = 3 mod 4 (Adj, Rodriguez-Henriquez, Alg. 9).
func sqrt2(a fp2) (fp2, bool) {
	if isZero2(a) {
		return a, true
	}
	a1 := exp2(a, pm3q)
	alpha := mul2(mul2(a1, a1), a)
	x0 := mul2(a1, a)
	minusOne := fp2{new(big.Int).Sub(P, one), big.NewInt(0)}
	var x fp2
	if eq2(alpha, minusOne) {
		x = mul2(fp2{big.NewInt(0), big.NewInt(1)}, x0)
	} else {
		b := exp2(add2(fp2{big.NewInt(1), big.NewInt(0)}, alpha), halfP)
		x = mul2(b, x0)
	}
	if !eq2(mul2(x, x), a) {
		return x, false
	}
	return x, true
}

// sign is the zcash "lexicographically largest" bit of y.
func sign2(y fp2) bool {
	if y.b.Sign() != 0 {
		return y.b.Cmp(halfP) > 0
	}
	return y.a.Cmp(halfP) > 0
}

func (p E2) onCurve() bool {
	if p.Inf {
		return true
	}
	l := mul2(p.Y, p.Y)
	r := add2(mul2(mul2(p.X, p.X), p.X), b2)
	return eq2(l, r)
}

func e2Add(p, q E2) E2 {
	if p.Inf {
		return q
	}
	if q.Inf {
		return p
	}
	var lam fp2
	if eq2(p.X, q.X) {
		if !eq2(p.Y, q.Y) || isZero2(p.Y) {
			return E2{Inf: true}
		}
		three := fp2{big.NewInt(3), big.NewInt(0)}
		two := fp2{big.NewInt(2), big.NewInt(0)}
		lam = mul2(mul2(three, mul2(p.X, p.X)), inv2(mul2(two, p.Y)))
	} else {
		lam = mul2(sub2(q.Y, p.Y), inv2(sub2(q.X, p.X)))
	}
	x := sub2(sub2(mul2(lam, lam), p.X), q.X)
	y := sub2(mul2(lam, sub2(p.X, x)), p.Y)
	return E2{X: x, Y: y}
}

func e2Mul(p E2, k *big.Int) E2 {
	r := E2{Inf: true}
	for i := k.BitLen() - 1; i >= 0; i-- {
		r = e2Add(r, r)
		if k.Bit(i) == 1 {
			r = e2Add(r, p)
		}
	}
	return r
}

// Compress encodes a point in the zcash compressed format.
func (p E2) Compress() []byte {
	if p.Inf {
		out := make([]byte, 96)
		out[0] = 0xC0
		return out
	}
	b := enc2(p.X)
	b[0] |= 0x80
	if sign2(p.Y) {
		b[0] |= 0x20
	}
	return b
}

// Decompress decodes a compressed, non-infinity encoding (no subgroup check).
func Decompress(b []byte) (E2, error) {
	if len(b) != 96 || b[0]&0x80 == 0 || b[0]&0x40 != 0 {
		return E2{}, errors.New("unsupported encoding")
	}
	t := append([]byte(nil), b...)
	s := t[0]&0x20 != 0
	t[0] &= 0x1F
	x := fp2{new(big.Int).SetBytes(t[:48]), new(big.Int).SetBytes(t[48:])}
	if x.a.Cmp(P) >= 0 || x.b.Cmp(P) >= 0 {
		return E2{}, errors.New("coordinate >= p")
	}
	y, ok := sqrt2(add2(mul2(mul2(x, x), x), b2))
	if !ok {
		return E2{}, errors.New("not on curve")
	}
	if sign2(y) != s {
		y = neg2(y)
	}
	return E2{X: x, Y: y}, nil
}

// H2 is the cofactor of G2 in E2(Fp2); SmallPrimes are small prime divisors of it.
var (
	H2, _       = new(big.Int).SetString("5d543a95414e7f1091d50792876a202cd91de4547085abaa68a205b2e5a7ddfa628f1cb4d9e82ef21537e293a6691ae1616ec6e786f0c70cf1c38e31c7238e5", 16)
	SmallPrimes = []int64{13, 23, 2713, 11953, 262069}
)

var (
	torsionOnce sync.Once
	torsion     []E2 // torsion[i] has order SmallPrimes[i]
)

type fixedRand struct{ s uint64 }

func (f *fixedRand) Bytes(n int) []byte {
	out := make([]byte, n)
	for i := range out {
		// splitmix64
		f.s += 0x9e3779b97f4a7c15
		z := f.s
		z = (z ^ (z >> 30)) * 0xbf58476d1ce4e5b9
		z = (z ^ (z >> 27)) * 0x94d049bb133111eb
		out[i] = byte((z ^ (z >> 31)) >> 24)
	}
	return out
}

// Torsion returns a point of E2(Fp2) of order SmallPrimes[i] (computed once per process from
// a fixed pseudo-random curve point: T = [h2*r/l] R).
func Torsion(i int) E2 {
	torsionOnce.Do(func() {
		fr := &fixedRand{s: 12345}
		n := new(big.Int).Mul(H2, R)
		torsion = make([]E2, len(SmallPrimes))
		for k, l := range SmallPrimes {
			e := new(big.Int).Div(n, big.NewInt(l))
			if new(big.Int).Mod(H2, big.NewInt(l*l)).Sign() == 0 {
				// l^2 | h2 and the l-part of E2(Fp2) is Z_l x Z_l (exponent l): [n/l]R is always the
				// identity, [n/l^2]R is a point of order l (SelfCheck verifies the order)
				e = new(big.Int).Div(n, big.NewInt(l*l))
			}
			for {
				x := e2X(fr, true)
				y, ok := sqrt2(add2(mul2(mul2(x, x), x), b2))
				if !ok {
					continue
				}
				t := e2Mul(E2{X: x, Y: y}, e)
				if t.Inf {
					continue
				}
				torsion[k] = t
				break
			}
		}
	})
	return torsion[i%len(torsion)]
}

// G2PlusTorsion takes the compressed encoding of a genuine G2 point and returns the
// compressed encoding of Q + T with T of small prime order: on the curve, outside G2.
func G2PlusTorsion(g2enc []byte, which int) ([]byte, error) {
	q, err := Decompress(g2enc)
	if err != nil {
		return nil, err
	}
	s := e2Add(q, Torsion(which))
	if s.Inf || !s.onCurve() {
		return nil, errors.New("unexpected sum")
	}
	return s.Compress(), nil
}

// G2PlusMultiple returns the compressed encoding of Q + [c]T for the torsion point T of index
// `which` (c is reduced modulo T's order; c = 0 returns Q unchanged).
func G2PlusMultiple(g2enc []byte, which int, c int64) ([]byte, error) {
	q, err := Decompress(g2enc)
	if err != nil {
		return nil, err
	}
	l := SmallPrimes[which%len(SmallPrimes)]
	c = ((c % l) + l) % l
	s := e2Add(q, e2Mul(Torsion(which), big.NewInt(c)))
	if s.Inf || !s.onCurve() {
		return nil, errors.New("unexpected sum")
	}
	return s.Compress(), nil
}

// CancelCoeff returns c such that x^p + c*x^q = 0 modulo the order l of torsion point `which`
// (so that adding T to coefficient p and [c]T to coefficient q of a verification vector leaves
// the image at x unchanged); ok=false if x is not invertible modulo l.
func CancelCoeff(which int, x int64, p, q int) (int64, bool) {
	l := big.NewInt(SmallPrimes[which%len(SmallPrimes)])
	bx := big.NewInt(x)
	if new(big.Int).Mod(bx, l).Sign() == 0 {
		return 0, false
	}
	xp := new(big.Int).Exp(bx, big.NewInt(int64(p)), l)
	xq := new(big.Int).Exp(bx, big.NewInt(int64(q)), l)
	inv := new(big.Int).ModInverse(xq, l)
	c := new(big.Int).Mul(xp, inv)
	c.Neg(c).Mod(c, l)
	return c.Int64(), true
}

// SelfCheck validates the arithmetic: H2 divisible by the small primes, torsion points have
// the claimed order and are on the curve, compress/decompress round-trips.
func SelfCheck(g2enc []byte) error {
	for _, l := range SmallPrimes {
		if new(big.Int).Mod(H2, big.NewInt(l)).Sign() != 0 {
			return errors.New("small prime does not divide h2")
		}
	}
	for i, l := range SmallPrimes {
		t := Torsion(i)
		if !t.onCurve() || t.Inf {
			return errors.New("torsion point not on curve")
		}
		if !e2Mul(t, big.NewInt(l)).Inf {
			return errors.New("torsion point has wrong order")
		}
	}
	q, err := Decompress(g2enc)
	if err != nil {
		return err
	}
	if !q.onCurve() {
		return errors.New("decompressed point not on curve")
	}
	if string(q.Compress()) != string(g2enc) {
		return errors.New("compress(decompress(x)) != x")
	}
	if !e2Mul(q, R).Inf {
		return errors.New("library G2 point does not have order r under the harness arithmetic")
	}
	_ = zero
	return nil
}
