package curve

// Arithmetic on E1: y^2 = x^3 + 4 over Fp, affine coordinates, math/big (independent of the
// library under test). Used to build signature shares of the form S + T where S is a genuine
// share and T a point of small prime order in the cofactor part of E1(Fp): such a share is on
// the curve, outside G1, and still satisfies the pairing equation of its signer (e(T, Q) = 1
// for every T of order coprime to r), so that only an explicit G1 membership check tells it
// apart from S.

import (
	"errors"
	"math/big"
	"sync"
)

// E1 is an affine point of E1(Fp).
type E1 struct {
	X, Y *big.Int
	Inf  bool
}

var (
	// H1 is the cofactor of G1 in E1(Fp): 3 * 11^2 * 10177^2 * 859267^2 * 52437899^2.
	H1, _         = new(big.Int).SetString("396c8c005555e1568c00aaab0000aaab", 16)
	SmallPrimesE1 = []int64{3, 11, 10177, 859267}
	pp1q          = new(big.Int).Rsh(new(big.Int).Add(P, big.NewInt(1)), 2) // (p+1)/4, p = 3 mod 4
)

func (p E1) onCurve() bool {
	if p.Inf {
		return true
	}
	l := new(big.Int).Mul(p.Y, p.Y)
	r := new(big.Int).Exp(p.X, big.NewInt(3), P)
	r.Add(r, four)
	return l.Mod(l, P).Cmp(r.Mod(r, P)) == 0
}

func e1Add(p, q E1) E1 {
	if p.Inf {
		return q
	}
	if q.Inf {
		return p
	}
	var lam *big.Int
	if p.X.Cmp(q.X) == 0 {
		s := new(big.Int).Add(p.Y, q.Y)
		if s.Mod(s, P).Sign() == 0 {
			return E1{Inf: true}
		}
		// doubling: 3x^2 / 2y
		num := new(big.Int).Mul(p.X, p.X)
		num.Mul(num, big.NewInt(3)).Mod(num, P)
		den := new(big.Int).Lsh(p.Y, 1)
		den.ModInverse(den.Mod(den, P), P)
		lam = num.Mul(num, den).Mod(num, P)
	} else {
		num := new(big.Int).Sub(q.Y, p.Y)
		den := new(big.Int).Sub(q.X, p.X)
		den.ModInverse(den.Mod(den, P), P)
		lam = num.Mul(num, den).Mod(num, P)
	}
	x := new(big.Int).Mul(lam, lam)
	x.Sub(x, p.X).Sub(x, q.X).Mod(x, P)
	y := new(big.Int).Sub(p.X, x)
	y.Mul(y, lam).Sub(y, p.Y).Mod(y, P)
	return E1{X: x, Y: y}
}

func e1Mul(p E1, k *big.Int) E1 {
	r := E1{Inf: true}
	for i := k.BitLen() - 1; i >= 0; i-- {
		r = e1Add(r, r)
		if k.Bit(i) == 1 {
			r = e1Add(r, p)
		}
	}
	return r
}

// CompressE1 encodes in the zcash compressed format (48 bytes).
func (p E1) Compress() []byte {
	out := make([]byte, 48)
	if p.Inf {
		out[0] = 0xC0
		return out
	}
	p.X.FillBytes(out)
	out[0] |= 0x80
	if p.Y.Cmp(pm1h) > 0 { // y is the lexicographically larger root
		out[0] |= 0x20
	}
	return out
}

// DecompressE1 decodes a compressed, non-infinity encoding (no subgroup check).
func DecompressE1(b []byte) (E1, error) {
	if len(b) != 48 || b[0]&0x80 == 0 || b[0]&0x40 != 0 {
		return E1{}, errors.New("unsupported encoding")
	}
	t := append([]byte(nil), b...)
	s := t[0]&0x20 != 0
	t[0] &= 0x1F
	x := new(big.Int).SetBytes(t)
	if x.Cmp(P) >= 0 {
		return E1{}, errors.New("coordinate >= p")
	}
	y2 := new(big.Int).Exp(x, big.NewInt(3), P)
	y2.Add(y2, four).Mod(y2, P)
	y := new(big.Int).Exp(y2, pp1q, P)
	if new(big.Int).Exp(y, big.NewInt(2), P).Cmp(y2) != 0 {
		return E1{}, errors.New("not on curve")
	}
	if (y.Cmp(pm1h) > 0) != s {
		y.Sub(P, y)
	}
	return E1{X: x, Y: y}, nil
}

var (
	torsion1Once sync.Once
	torsion1     []E1
)

// TorsionE1 returns a point of E1(Fp) of order SmallPrimesE1[i] (computed once per process;
// index 0 is the point (0, 2) of order 3).
func TorsionE1(i int) E1 {
	torsion1Once.Do(func() {
		fr := &fixedRand{s: 4242}
		n := new(big.Int).Mul(H1, R)
		torsion1 = make([]E1, len(SmallPrimesE1))
		torsion1[0] = E1{X: big.NewInt(0), Y: big.NewInt(2)}
		for k := 1; k < len(SmallPrimesE1); k++ {
			l := big.NewInt(SmallPrimesE1[k])
			for {
				x := e1X(fr, true)
				y2 := new(big.Int).Exp(x, big.NewInt(3), P)
				y2.Add(y2, four).Mod(y2, P)
				y := new(big.Int).Exp(y2, pp1q, P)
				// [n/l] Q has order 1 or l; when l^2 | h1 the l-part may be cyclic of order l^2,
				// so multiply down until the order is exactly l
				t := e1Mul(E1{X: x, Y: y}, new(big.Int).Div(n, l))
				if t.Inf {
					t = e1Mul(E1{X: x, Y: y}, new(big.Int).Div(n, new(big.Int).Mul(l, l)))
				}
				if t.Inf || !e1Mul(t, l).Inf {
					continue
				}
				torsion1[k] = t
				break
			}
		}
	})
	return torsion1[i%len(torsion1)]
}

// G1PlusTorsion takes the compressed encoding of a genuine G1 point (a signature share) and
// returns the compressed encoding of S + [c]T with T of order SmallPrimesE1[which]
// (c reduced modulo the order, never 0): on the curve, outside G1.
func G1PlusTorsion(g1enc []byte, which int, c int64) ([]byte, error) {
	s, err := DecompressE1(g1enc)
	if err != nil {
		return nil, err
	}
	l := SmallPrimesE1[which%len(SmallPrimesE1)]
	c = ((c % l) + l) % l
	if c == 0 {
		c = 1
	}
	q := e1Add(s, e1Mul(TorsionE1(which), big.NewInt(c)))
	if q.Inf || !q.onCurve() {
		return nil, errors.New("unexpected sum")
	}
	return q.Compress(), nil
}

// SelfCheckE1 validates the E1 arithmetic against an encoding produced by the library (a
// signature): round trip, order r, torsion orders.
func SelfCheckE1(g1enc []byte) error {
	for i, l := range SmallPrimesE1 {
		if new(big.Int).Mod(H1, big.NewInt(l)).Sign() != 0 {
			return errors.New("small prime does not divide h1")
		}
		t := TorsionE1(i)
		if t.Inf || !t.onCurve() || !e1Mul(t, big.NewInt(l)).Inf {
			return errors.New("E1 torsion point has wrong order")
		}
	}
	q, err := DecompressE1(g1enc)
	if err != nil {
		return err
	}
	if string(q.Compress()) != string(g1enc) {
		return errors.New("E1 compress(decompress(x)) != x")
	}
	if !e1Mul(q, R).Inf {
		return errors.New("library G1 point does not have order r under the harness arithmetic")
	}
	return nil
}
