// Package curve produces BLS12-381 point encodings the library must reject, with the
// harness' own math/big arithmetic (never with the library under test): points on E1/E2
// that are outside the prime-order subgroups, x-coordinates >= p, off-curve x, bad header
// bits. Encodings follow the zcash format used by the library (compressed, big endian,
// for E2 the imaginary part first).
package curve

import (
	"math/big"
)

var (
	P, _ = new(big.Int).SetString("1a0111ea397fe69a4b1ba7b6434bacd764774b84f38512bf6730d2a0f6b0f6241eabfffeb153ffffb9feffffffffaaab", 16)
	R, _ = new(big.Int).SetString("73eda753299d7d483339d80809a1d80553bda402fffe5bfeffffffff00000001", 16)
	pm1h = new(big.Int).Rsh(new(big.Int).Sub(P, big.NewInt(1)), 1)
	one  = big.NewInt(1)
	four = big.NewInt(4)
)

type Rand interface{ Bytes(int) []byte }

func randFp(r Rand) *big.Int {
	b := r.Bytes(64)
	return new(big.Int).Mod(new(big.Int).SetBytes(b), P)
}

func isQR(a *big.Int) bool {
	if a.Sign() == 0 {
		return true
	}
	return new(big.Int).Exp(a, pm1h, P).Cmp(one) == 0
}

func fp48(a *big.Int) []byte {
	out := make([]byte, 48)
	a.FillBytes(out)
	return out
}

// E1OnCurveX returns a random x in Fp such that x^3+4 is (onCurve) or is not a square.
func e1X(r Rand, onCurve bool) *big.Int {
	for {
		x := randFp(r)
		y2 := new(big.Int).Exp(x, big.NewInt(3), P)
		y2.Add(y2, four).Mod(y2, P)
		if isQR(y2) == onCurve && y2.Sign() != 0 {
			return x
		}
	}
}

// G1NonSubgroup: compressed encoding of a random point of E1(Fp); it lies outside G1 except
// with probability 1/cofactor (~2^-126).
func G1NonSubgroup(r Rand) []byte {
	b := fp48(e1X(r, true))
	b[0] |= 0x80
	if r.Bytes(1)[0]&1 == 1 {
		b[0] |= 0x20
	}
	return b
}

// G1OffCurve: well-formed header, x < p, but x^3+4 is not a square.
func G1OffCurve(r Rand) []byte {
	b := fp48(e1X(r, false))
	b[0] |= 0x80
	return b
}

// G1XTooLarge: x >= p.
func G1XTooLarge(r Rand) []byte {
	x := new(big.Int).Add(P, big.NewInt(int64(r.Bytes(1)[0])))
	b := fp48(x) // p < 2^381 so the three header bits stay clear
	b[0] |= 0x80
	return b
}

// ---- Fp2 = Fp[i]/(i^2+1), E2: y^2 = x^3 + 4(1+i) --------------------------------------

type fp2 struct{ a, b *big.Int } // a + b*i

func mul2(x, y fp2) fp2 {
	ac := new(big.Int).Mul(x.a, y.a)
	bd := new(big.Int).Mul(x.b, y.b)
	ad := new(big.Int).Mul(x.a, y.b)
	bc := new(big.Int).Mul(x.b, y.a)
	re := ac.Sub(ac, bd)
	im := ad.Add(ad, bc)
	return fp2{re.Mod(re, P), im.Mod(im, P)}
}

func add2(x, y fp2) fp2 {
	a := new(big.Int).Add(x.a, y.a)
	b := new(big.Int).Add(x.b, y.b)
	return fp2{a.Mod(a, P), b.Mod(b, P)}
}

func norm(x fp2) *big.Int {
	n := new(big.Int).Mul(x.a, x.a)
	m := new(big.Int).Mul(x.b, x.b)
	n.Add(n, m)
	return n.Mod(n, P)
}

func e2X(r Rand, onCurve bool) fp2 {
	b2 := fp2{big.NewInt(4), big.NewInt(4)}
	for {
		x := fp2{randFp(r), randFp(r)}
		y2 := add2(mul2(mul2(x, x), x), b2)
		if y2.a.Sign() == 0 && y2.b.Sign() == 0 {
			continue
		}
		// an element of Fp2 is a square iff its norm is a square in Fp
		if isQR(norm(y2)) == onCurve {
			return x
		}
	}
}

func enc2(x fp2) []byte {
	return append(fp48(x.a), fp48(x.b)...)
}

// G2NonSubgroup: compressed encoding of a random point of E2(Fp2), outside G2 except with
// negligible probability.
func G2NonSubgroup(r Rand) []byte {
	b := enc2(e2X(r, true))
	b[0] |= 0x80
	if r.Bytes(1)[0]&1 == 1 {
		b[0] |= 0x20
	}
	return b
}

// G2OffCurve: x with x^3+4(1+i) a non-square.
func G2OffCurve(r Rand) []byte {
	b := enc2(e2X(r, false))
	b[0] |= 0x80
	return b
}

// G2XTooLarge: one coordinate of x is >= p.
func G2XTooLarge(r Rand) []byte {
	x := fp2{randFp(r), new(big.Int).Add(P, big.NewInt(int64(r.Bytes(1)[0])))}
	if r.Bytes(1)[0]&1 == 1 {
		x = fp2{new(big.Int).Add(P, big.NewInt(3)), randFp(r)}
	}
	b := append(fp48(x.a), fp48(x.b)...)
	b[0] |= 0x80
	return b
}

// ScalarTooLarge returns a 32-byte big-endian scalar >= r.
func ScalarTooLarge(r Rand) []byte {
	b := int64(r.Bytes(1)[0])
	x := new(big.Int).Add(R, big.NewInt(b))
	switch {
	case b < 32: // exactly r
		x.Set(R)
	case b < 64: // the largest 32-byte value
		x.Lsh(one, 256).Sub(x, one)
	case b < 96: // 2r-1: still below 2^256, reduces to r-1
		x.Lsh(R, 1).Sub(x, one)
	}
	out := make([]byte, 32)
	x.FillBytes(out)
	return out
}

// ScalarRandom returns a 32-byte big-endian scalar in [1, r-1].
func ScalarRandom(r Rand) []byte {
	x := new(big.Int).SetBytes(r.Bytes(48))
	x.Mod(x, new(big.Int).Sub(R, one)).Add(x, one)
	out := make([]byte, 32)
	x.FillBytes(out)
	return out
}

// ScalarAddOne returns s+1 mod r (never 0: r-1+1 -> 1 is avoided by returning 2).
func ScalarAddOne(s []byte) []byte {
	x := new(big.Int).SetBytes(s)
	x.Add(x, one).Mod(x, R)
	if x.Sign() == 0 {
		x.SetInt64(2)
	}
	out := make([]byte, 32)
	x.FillBytes(out)
	return out
}

// G1XNearP returns a compressed G1 encoding whose x field is p+d.
func G1XNearP(d int64) []byte {
	b := fp48(new(big.Int).Add(P, big.NewInt(d)))
	b[0] |= 0x80
	return b
}

// G2XNearP returns a compressed G2 encoding where component `which` of x is p+d and the other is 1.
func G2XNearP(d int64, which int) []byte {
	v := new(big.Int).Add(P, big.NewInt(d))
	x := fp2{v, big.NewInt(1)}
	if which == 1 {
		x = fp2{big.NewInt(1), v}
	}
	b := append(fp48(x.a), fp48(x.b)...)
	b[0] |= 0x80
	return b
}

// ScalarNearR returns the 32-byte big-endian encoding of r+d.
func ScalarNearR(d int64) []byte {
	out := make([]byte, 32)
	new(big.Int).Add(R, big.NewInt(d)).FillBytes(out)
	return out
}

// ScalarNeg returns r - s (32 bytes, big endian).
func ScalarNeg(sc []byte) []byte {
	x := new(big.Int).SetBytes(sc)
	x.Sub(R, x).Mod(x, R)
	out := make([]byte, 32)
	x.FillBytes(out)
	return out
}
