package curve

import (
	"testing"

	crypto "github.com/onflow/crypto"
)

// TestSelfCheck validates the harness arithmetic against the library: run with
// `go test ./curve` inside a scratch build (needs the replace directive of go.mod).
func TestSelfCheck(t *testing.T) {
	sk, err := crypto.GeneratePrivateKey(crypto.BLSBLS12381, make([]byte, 32))
	if err != nil {
		t.Fatal(err)
	}
	enc := sk.PublicKey().Encode()
	if err := SelfCheck(enc); err != nil {
		t.Fatal(err)
	}
	for i := range SmallPrimes {
		b, err := G2PlusTorsion(enc, i)
		if err != nil {
			t.Fatal(err)
		}
		if _, err := crypto.DecodePublicKey(crypto.BLSBLS12381, b); err == nil {
			t.Fatalf("library accepted G2 + torsion point of order %d", SmallPrimes[i])
		}
	}
	// E1: a library signature decompresses, has order r, and signature + torsion is rejected by Verify
	h := crypto.NewExpandMsgXOFKMAC128("curve-selfcheck")
	sig, err := sk.Sign([]byte("msg"), h)
	if err != nil {
		t.Fatal(err)
	}
	if err := SelfCheckE1(sig); err != nil {
		t.Fatal(err)
	}
	for i := range SmallPrimesE1 {
		b, err := G1PlusTorsion(sig, i, 1)
		if err != nil {
			t.Fatal(err)
		}
		if ok, _ := sk.PublicKey().Verify(b, []byte("msg"), h); ok {
			t.Fatalf("library accepted signature + torsion point of order %d", SmallPrimesE1[i])
		}
	}
	r := &fixedRand{s: 7}
	for i := 0; i < 20; i++ {
		if _, err := crypto.DecodePublicKey(crypto.BLSBLS12381, G2NonSubgroup(r)); err == nil {
			t.Fatal("library accepted a random curve point")
		}
		p, err := Decompress(G2NonSubgroup(r))
		if err != nil || !p.onCurve() {
			t.Fatal("G2NonSubgroup is not on the curve", err)
		}
		if _, err := Decompress(G2OffCurve(r)); err == nil {
			t.Fatal("G2OffCurve is on the curve")
		}
	}
}
