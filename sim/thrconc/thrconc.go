// Package thrconc runs 2-4 tasks against ONE shared stateful threshold-signature object
// under the simrt scheduler (every statement of the instrumented library is a yield point,
// locks are simulated) and checks the recorded history for linearizability with porcupine
// against the sequential model in thrmodel (property C18). The harness is built with -race:
// the race detector is an additional in-simulation oracle.
package thrconc

import (
	"strings"
	"encoding/hex"
	"fmt"
	"time"

	"github.com/anishathalye/porcupine"
	crypto "github.com/onflow/crypto"
	"github.com/onflow/crypto/simrt"

	"verifsim/choice"
	"verifsim/racelog"
	"verifsim/curve"
	"verifsim/engine"
	"verifsim/thrmodel"
)

type Engine struct{}

func (Engine) Name() string { return "thrconc" }

// StallIsHarnessTrouble: see engine.Staller.
func (Engine) StallIsHarnessTrouble() bool { return true }

type rec struct {
	task     int
	op       thrmodel.Op
	res      thrmodel.Res
	call     int64
	ret      int64
	panicked string
}

func errClass(err error) string {
	switch {
	case err == nil:
		return ""
	case crypto.IsDuplicatedSignerError(err):
		return "duplicate"
	case crypto.IsNotEnoughSharesError(err):
		return "notenough"
	case crypto.IsInvalidSignatureError(err):
		return "invalidsig"
	case crypto.IsInvalidInputsError(err):
		return "input"
	}
	return "other"
}

func (Engine) Run(c *choice.Src, o engine.Opt) (out engine.Out) {
	out = engine.Out{Params: map[string]any{}, Faults: map[string]int{}, Probes: map[string]int{}, SimTime: map[string]int{}}
	var evlog, trace []string
	ev := func(f string, a ...any) {
		s := fmt.Sprintf(f, a...)
		evlog = append(evlog, s)
		if o.Trace {
			trace = append(trace, s)
		}
	}
	viol := func(oracle, class, f string, a ...any) {
		d := fmt.Sprintf(f, a...)
		out.Viols = append(out.Viols, engine.Viol{Property: "C18", Oracle: oracle, Class: class, Detail: d})
		ev("VIOLATION[C18] %s: %s", class, d)
	}
	var fp []string
	defer func() {
		out.Trace = trace
		out.EventHash = engine.HexHash(evlog)
		out.Fingerprint = engine.HashStrings(fp...)
	}()

	// ---- sequential set-up (scheduler off) ------------------------------------------
	n := 3 + c.Choose(4, "n")
	t := 1 + c.Choose(n-1, "t")
	if c.Bool(1, 2, "smallt") {
		t = 1 + c.Choose(2, "t2")
		if t > n-1 {
			t = n - 1
		}
	}
	rnd := c.Sub("inputs")
	sks, pks, gpk, err := crypto.BLSThresholdKeyGen(n, t, rnd.Bytes(32))
	if err != nil {
		viol("setup", "setup.keygen", "%v", err)
		return
	}
	msg := rnd.Bytes(20)
	oneBuffer := c.Bool(1, 2, "msg.and.share.in.one.buffer")
	var packet []byte
	if oneBuffer {
		// the message and (below) the first genuine share are adjacent sub-slices of one packet:
		// whoever writes behind the message (spare capacity) writes into the share
		packet = make([]byte, 20+48+16)
		copy(packet, msg)
		msg = packet[:20]
		out.Faults["shape.message_and_share_share_backing_array"]++
	}
	tag := "thrconc"
	hasher := crypto.NewExpandMsgXOFKMAC128(tag)
	var pool []thrmodel.Share
	for i := 0; i < n; i++ {
		s, err := sks[i].Sign(msg, hasher)
		if err != nil {
			viol("setup", "setup.sign", "%v", err)
			return
		}
		if oneBuffer && i == 0 {
			copy(packet[20:], s)
			s = packet[20:68]
		}
		pool = append(pool, thrmodel.Share{Bytes: s, Kind: "true", TrueOf: i})
	}
	var first []crypto.Signature
	var signers []int
	for i := 0; i <= t; i++ {
		first = append(first, pool[i].Bytes)
		signers = append(signers, i)
	}
	gsig, err := crypto.BLSReconstructThresholdSignature(n, t, first, signers)
	if err != nil {
		viol("setup", "setup.reconstruct", "%v", err)
		return
	}
	if ok, _ := gpk.Verify(gsig, msg, hasher); !ok {
		viol("setup", "setup.verify", "group signature does not verify")
		return
	}
	// invalid shares: 48 bytes each
	bh := append([]byte(nil), pool[0].Bytes...)
	bh[0] &^= 0x80
	neg := append([]byte(nil), pool[1].Bytes...)
	neg[0] ^= 0x20
	if ts, err := curve.G1PlusTorsion(pool[0].Bytes, rnd.Intn(len(curve.SmallPrimesE1)), 1); err == nil {
		pool = append(pool, thrmodel.Share{Bytes: ts, Kind: "torsion", TrueOf: -1})
	}
	pool = append(pool,
		thrmodel.Share{Bytes: curve.G1NonSubgroup(rnd), Kind: "notG1", TrueOf: -1},
		thrmodel.Share{Bytes: bh, Kind: "badheader", TrueOf: -1},
		thrmodel.Share{Bytes: neg, Kind: "negated", TrueOf: -1},
		thrmodel.Share{Bytes: append([]byte(nil), pool[2%n].Bytes[:47]...), Kind: "len47", TrueOf: -1},
		thrmodel.Share{Bytes: []byte{}, Kind: "len0", TrueOf: -1},
		thrmodel.Share{Bytes: nil, Kind: "nil", TrueOf: -1})
	nc := make([]byte, 48) // the infinity header followed by a non-zero byte: not an encoding of any point
	nc[0], nc[47] = 0xC0, byte(1+rnd.Intn(255))
	pool = append(pool, thrmodel.Share{Bytes: nc, Kind: "infinity-noncanonical", TrueOf: -1})
	me := c.Choose(n, "me")
	env := &thrmodel.Env{N: n, T: t, Pool: pool, GroupSig: hex.EncodeToString(gsig), MyShare: hex.EncodeToString(pool[me].Bytes)}
	participant := c.Bool(1, 2, "participant")
	var obj crypto.ThresholdSignatureInspector
	var part crypto.ThresholdSignatureParticipant
	if participant {
		p, err := crypto.NewBLSThresholdSignatureParticipant(gpk, pks, t, me, sks[me], msg, tag)
		if err != nil {
			viol("setup", "setup.ctor", "%v", err)
			return
		}
		obj, part = p, p
	} else {
		p, err := crypto.NewBLSThresholdSignatureInspector(gpk, pks, t, msg, tag)
		if err != nil {
			viol("setup", "setup.ctor", "%v", err)
			return
		}
		obj = p
	}
	ntasks := 2 + c.Choose(3, "tasks")
	out.Params["n"], out.Params["t"], out.Params["tasks"], out.Params["participant"] = n, t, ntasks, participant
	fp = append(fp, fmt.Sprint(n, t, ntasks, participant))

	// ---- workload: operations per task, drawn before the run ----------------------
	opW := []int{6, 6, 2, 2, 1, 1, 1, 4} // TrustedAdd VerifyAndAdd HasShare EnoughShares VerifyShare VerifyThresholdSignature SignShare ThresholdSignature
	if !participant {
		opW[6] = 0
	}
	names := []string{"TrustedAdd", "VerifyAndAdd", "HasShare", "EnoughShares", "VerifyShare", "VerifyThresholdSignature", "SignShare", "ThresholdSignature"}
	plans := make([][]thrmodel.Op, ntasks)
	total := 0
	for ti := range plans {
		k := 2 + c.Choose(5, "nops")
		if ti > 0 && c.Bool(1, 4, "monitor") {
			// a monitor task: only the read-only queries, back to back (what a caller polling the
			// object does), so that two observations of ONE pending update are compared
			k = 4 + c.Choose(3, "monitor.nops")
			for j := 0; j < k && total < 24; j++ {
				op := thrmodel.Op{Name: "EnoughShares", Share: -1}
				if c.Bool(1, 2, "monitor.has") {
					op = thrmodel.Op{Name: "HasShare", Orig: c.Choose(n, "monitor.idx"), Share: -1}
				}
				plans[ti] = append(plans[ti], op)
				total++
			}
			out.Faults["workload.monitor_task"]++
			continue
		}
		for j := 0; j < k && total < 24; j++ {
			op := thrmodel.Op{Name: names[c.Weighted(opW, "op")], Share: -1}
			switch op.Name {
			case "TrustedAdd", "VerifyAndAdd", "VerifyShare":
				op.Orig = c.Choose(n, "orig")
				switch c.Choose(8, "sharekind") {
				case 0:
					op.Share = n + c.Choose(len(pool)-n, "bad")
				case 1:
					op.Share = c.Choose(n, "othershare") // possibly a wrong signer's share
				case 2:
					op.Orig = []int{-1, n, 256 + op.Orig, 255}[c.Choose(4, "badorig")]
					op.Share = 0
				default:
					op.Share = op.Orig
				}
			case "HasShare":
				op.Orig = c.Choose(n+2, "has") - 1
			case "VerifyThresholdSignature":
				op.Sig = c.Choose(3, "sig")
			}
			plans[ti] = append(plans[ti], op)
			total++
			if (op.Name == "VerifyAndAdd" || op.Name == "VerifyShare") && op.Share >= n && op.Orig >= 0 && op.Orig < n &&
				len(pool[op.Share].Bytes) == 48 && total < 24 && c.Bool(1, 2, "recvbuf") {
				// receive-buffer pattern: the (rejected, hence not retained) share and the signer's
				// genuine share that follows it arrive in the SAME caller buffer
				plans[ti][len(plans[ti])-1].Reuse = true
				plans[ti] = append(plans[ti], thrmodel.Op{Name: "VerifyAndAdd", Orig: op.Orig, Share: op.Orig, Reuse: true})
				total++
				out.Faults["workload.receive_buffer_reused_after_rejection"]++
			}
		}
	}

	// ---- the concurrent run under the seeded scheduler -----------------------------
	recs := make([][]rec, ntasks)
	recvBuf := make([][]byte, ntasks)
	doOp := func(ti int, op thrmodel.Op) (r rec) {
		r = rec{task: ti, op: op}
		var sh crypto.Signature
		if op.Share >= 0 {
			sh = pool[op.Share].Bytes
		}
		if op.Reuse && len(sh) == 48 {
			if recvBuf[ti] == nil {
				recvBuf[ti] = make([]byte, 48)
			}
			copy(recvBuf[ti], sh)
			sh = recvBuf[ti]
			if op.Share < n {
				recvBuf[ti] = nil // a genuine share may be retained by the object: the buffer is not reused afterwards
			}
		}
		defer func() {
			if p := recover(); p != nil {
				r.panicked = fmt.Sprint(p)
				r.ret = simrt.Stamp()
			}
		}()
		r.call = simrt.Stamp()
		switch op.Name {
		case "TrustedAdd":
			b, err := obj.TrustedAdd(op.Orig, sh)
			r.res = thrmodel.Res{B1: b, Err: errClass(err)}
		case "VerifyAndAdd":
			b1, b2, err := obj.VerifyAndAdd(op.Orig, sh)
			r.res = thrmodel.Res{B1: b1, B2: b2, Err: errClass(err)}
		case "VerifyShare":
			b, err := obj.VerifyShare(op.Orig, sh)
			r.res = thrmodel.Res{B1: b, Err: errClass(err)}
		case "HasShare":
			b, err := obj.HasShare(op.Orig)
			r.res = thrmodel.Res{B1: b, Err: errClass(err)}
		case "EnoughShares":
			r.res = thrmodel.Res{B1: obj.EnoughShares()}
		case "ThresholdSignature":
			s, err := obj.ThresholdSignature()
			r.res = thrmodel.Res{Err: errClass(err)}
			if s != nil {
				r.res.Sig = hex.EncodeToString(s)
			}
		case "SignShare":
			s, err := part.SignShare()
			r.res = thrmodel.Res{Err: errClass(err), Sig: hex.EncodeToString(s)}
		case "VerifyThresholdSignature":
			var sig crypto.Signature
			switch op.Sig {
			case 0:
				sig = gsig
			case 1:
				sig = pool[0].Bytes
			default:
				sig = []byte{1, 2, 3}
			}
			b, err := obj.VerifyThresholdSignature(sig)
			r.res = thrmodel.Res{B1: b, Err: errClass(err)}
		}
		r.ret = simrt.Stamp()
		return
	}
	var fns []func()
	for ti := range plans {
		ti := ti
		fns = append(fns, func() {
			for _, op := range plans[ti] {
				simrt.TaskYield()
				engine.CurrentCall.Store(fmt.Sprintf("task %d %v", ti, op))
				recs[ti] = append(recs[ti], doOp(ti, op))
			}
		})
	}
	sim := simrt.New(func(n int, label string) int { return c.Choose(n, label) }, fns...)
	racelog.Mark()
	panics := sim.Run()
	if nrep, text := racelog.Since(); nrep > 0 {
		// a report of the Go race detector during THIS run (the worker runs with halt_on_error=0
		// and without duplicate suppression, see package racelog)
		cw := ""
		if sim.CWSite != 0 {
			cw = fmt.Sprintf("C call at Go line %d modifies a Go object of %d bytes that the C call at Go line %d uses concurrently", sim.CWSite, sim.CWBytes, sim.CWOther)
		}
		d := racelog.Classify(text, cw)
		for ti := range plans {
			ev("task %d runs %v", ti, plans[ti])
		}
		for _, sw := range sim.Trace {
			ev("switch to task %d (previous task was at line %d, budget %d)", sw.Task, sw.Site, sw.Budget)
		}
		viol("race", "race:"+d, "%s (%d report(s) in this run)", d, nrep)
		if o.Trace {
			lines := strings.Split(text, "\n")
			if len(lines) > 70 {
				lines = lines[:70]
			}
			trace = append(trace, lines...)
		}
		out.Nontrivial = true
		return
	}
	out.SimTime["scheduler_steps"] += sim.Steps
	out.SimTime["context_switches"] += sim.Switches
	out.SimTime["go_objects_handed_to_C_and_reported_to_race_detector"] += sim.CArgs
	out.SimTime["go_objects_modified_by_C"] += sim.CWrites
	out.Faults["sched.map_iteration_order_drawn"] += sim.MapOrders
	out.Faults["sched.channel_operation_in_library"] += sim.ChanOps
	out.Faults["sched.task_parked_on_channel"] += sim.ChanBlocks
	out.Probes["lock_contended"] += sim.Contended
	out.Probes["switch_inside_critical_section"] += sim.SwitchInCrit
	if sim.Switches > ntasks {
		out.Nontrivial = true
	}
	out.Faults["sched.context_switch"] += sim.Switches
	out.Faults["sched.switch_inside_critical_section"] += sim.SwitchInCrit
	prevTask := -1
	for _, sw := range sim.Trace {
		if sw.Site >= 1000000 && sw.Task != prevTask {
			out.Faults["sched.switch_inside_C_function"]++
		}
		prevTask = sw.Task
		fp = append(fp, fmt.Sprintf("%d@%d", sw.Task, sw.Site))
		ev("switch to task %d (previous task was at line %d, budget %d)", sw.Task, sw.Site, sw.Budget)
	}
	if sim.Deadlock != "" {
		viol("deadlock", "deadlock", "%s", sim.Deadlock)
		return
	}
	for i, p := range panics {
		if p != nil {
			viol("nopanic", "panic.task", "task %d panicked: %v", i, p)
			return
		}
	}
	if h := sim.LocksHeld(); h != 0 {
		// every task returned but a lock of the object is still held: any later call would block for ever
		viol("deadlock", "lock-leaked", "all tasks finished but %d lock(s) of the shared object are still held (missing unlock on some path)", h)
		for ti := range recs {
			for _, r := range recs[ti] {
				ev("task %d: %s -> %s  [%d,%d]", ti, r.op, r.res, r.call, r.ret)
			}
		}
		return
	}
	// ---- oracles -------------------------------------------------------------------
	var ops []porcupine.Operation
	for ti := range recs {
		for _, r := range recs[ti] {
			ev("task %d: %s -> %s  [%d,%d]", ti, r.op, r.res, r.call, r.ret)
			if r.panicked != "" {
				viol("nopanic", "panic:"+r.op.Name, "task %d: %s panicked: %s", ti, r.op, r.panicked)
				return
			}
			ops = append(ops, porcupine.Operation{ClientId: ti, Input: r.op, Call: r.call, Output: r.res, Return: r.ret})
		}
	}
	model := porcupine.Model{
		Init: func() interface{} { return thrmodel.NewState() },
		Step: func(st, in, outp interface{}) (bool, interface{}) {
			ok, next := env.Step(st.(thrmodel.State), in.(thrmodel.Op), outp.(thrmodel.Res))
			return ok, next
		},
		Equal: func(a, b interface{}) bool { return a.(thrmodel.State).Key() == b.(thrmodel.State).Key() },
	}
	switch porcupine.CheckOperationsTimeout(model, ops, 30*time.Second) {
	case porcupine.Illegal:
		viol("linearizable", "not-linearizable", "the history of %d operations by %d tasks has no sequential explanation under the documented semantics", len(ops), ntasks)
	case porcupine.Unknown:
		out.Probes["porcupine_inconclusive"]++
	default:
		out.Probes["histories_linearizable"]++
	}
	// invariants on the final state, observed sequentially
	held := 0
	for i := 0; i < n; i++ {
		if b, _ := obj.HasShare(i); b {
			held++
		}
	}
	if held > t+1 {
		viol("invariant", "too-many-shares", "%d shares retained, t+1=%d", held, t+1)
	}
	if obj.EnoughShares() != (held == t+1) {
		viol("invariant", "enough-vs-held", "EnoughShares()=%v with %d shares retained, t+1=%d", obj.EnoughShares(), held, t+1)
	}
	// EnoughShares never reverts: once an operation that returned "enough" has completed, a later-starting one must not report otherwise
	var all []rec
	for ti := range recs {
		all = append(all, recs[ti]...)
	}
	for _, a := range all {
		enoughA := (a.op.Name == "EnoughShares" && a.res.B1) || (a.op.Name == "TrustedAdd" && a.res.B1 && a.res.Err == "") || (a.op.Name == "VerifyAndAdd" && a.res.B2)
		if !enoughA {
			continue
		}
		for _, b := range all {
			if b.call > a.ret && b.op.Name == "EnoughShares" && !b.res.B1 {
				viol("invariant", "enough-reverted", "EnoughShares() returned false after %s had reported enough shares", a.op)
			}
		}
	}
	out.SimTime["operations"] += len(ops)
	return
}
