// Package roconc runs 2-4 tasks that share keys, signatures, messages and hashers and call
// only operations documented as read-only / thread-safe, under the simrt scheduler with the
// race detector as in-simulation oracle (property C19).
//
// Oracles: (1) every result equals the result of the same call made alone during set-up;
// (2) the race detector is silent; (3) all argument buffers, key encodings and the shared
// hashers' outputs are unchanged after the run.
package roconc

import (
	"strings"
	"bytes"
	"encoding/hex"
	"fmt"

	crypto "github.com/onflow/crypto"
	"github.com/onflow/crypto/hash"
	"github.com/onflow/crypto/random"
	"github.com/onflow/crypto/simrt"

	"verifsim/choice"
	"verifsim/curve"
	"verifsim/racelog"
	"verifsim/engine"
)

type Engine struct{}

func (Engine) Name() string { return "roconc" }

// StallIsHarnessTrouble: see engine.Staller.
func (Engine) StallIsHarnessTrouble() bool { return true }

type op struct {
	name string
	a, b int
}

// recipe is the shape of a run's shared world, drawn from the choice stream (swarm): how many
// keys and messages there are, where each public key object comes from (decoded = affine
// coordinates; aggregated / subtracted / threshold key generation = whatever representation the
// library's group arithmetic leaves behind), whether messages and signatures are exact-size
// allocations or sub-slices of one arena with spare capacity behind them, and which defective
// couples the batch-verification lists contain.
type recipe struct {
	nk, nm   int
	derived  []int // per derived key: 0 aggregated(a,b), 1 removed(a+b+c, c), 2 threshold key share, 3 identity (a + (-a))
	arena    bool  // messages are consecutive sub-slices of one buffer (cap reaches into the next message)
	sigArena bool
	batch    []int // per batch list: 0 all valid, 1 wrong message, 2 identity key, 3.. wrong-length signature (0,47,49)
	ecdsaFromSK [2]bool // the ECDSA public key object comes from sk.PublicKey() (called once during set-up), not from a decoder
}

type batchList struct {
	pks  []crypto.PublicKey
	sigs []crypto.Signature
}

type world struct {
	rc recipe
	// BLS
	sks       []crypto.PrivateKey
	pks       []crypto.PublicKey
	msgs      [][]byte
	msgArena  []byte
	sigArena  []byte
	sigs      [][]crypto.Signature // sigs[key][msg]
	pops      []crypto.Signature
	kmac      hash.Hasher // shared BLS hasher
	rawKmac   hash.Hasher // shared plain KMAC128 instance
	kmacKey   []byte
	kmacSize  int
	aggSig    crypto.Signature
	aggKeys   []crypto.PublicKey
	manySig   crypto.Signature
	manyKeys  []crypto.PublicKey
	manyMsgs  [][]byte
	manyHs    []hash.Hasher
	spock     []crypto.Signature
	batches   []batchList
	mixedKeys []crypto.PublicKey // the BLS keys with one ECDSA key among them (error paths)
	aggKeys2  []crypto.PublicKey // a second committee (all keys but the last) and its multi-signature
	aggSig2   crypto.Signature
	sigTable  []crypto.Signature // shared list for AggregateBLSSignatures: an identity signature before genuine ones
	sigTableAgg crypto.Signature
	packedSigs  []crypto.Signature // consecutive 48-byte sub-slices of ONE buffer (a packed wire format)
	packedBuf   []byte
	// ECDSA
	esk  [2]crypto.PrivateKey
	epk  [2]crypto.PublicKey
	esig [2][]crypto.Signature
}

func must(err error) {
	if err != nil {
		panic(err)
	}
}

// material is what both worlds (reference and concurrent) are built from: plain bytes.
type material struct {
	baseSK   [][]byte // encoded base private keys
	thrSeed  []byte
	msgs     [][]byte
	kmacKey  []byte
	kmacSize int
	ecdsaSK  [2][]byte
	// signatures are computed once (reference world) and copied
	sigs  [][][]byte
	pops  [][]byte
	spock [][]byte
	esig  [2][][]byte
}

func drawRecipe(c *choice.Src) recipe {
	rc := recipe{nk: 3 + c.Choose(2, "nkeys"), nm: 3 + c.Choose(3, "nmsgs")}
	nd := c.Choose(3, "nderived")
	for i := 0; i < nd; i++ {
		rc.derived = append(rc.derived, c.Choose(4, "derived.kind"))
	}
	rc.arena = c.Bool(1, 2, "msg.arena")
	rc.sigArena = c.Bool(1, 2, "sig.arena")
	rc.ecdsaFromSK = [2]bool{c.Bool(1, 2, "ecdsa.pk.fromsk.p256"), c.Bool(1, 2, "ecdsa.pk.fromsk.k1")}
	nb := 1 + c.Choose(3, "nbatch")
	for i := 0; i < nb; i++ {
		rc.batch = append(rc.batch, c.Choose(6, "batch.kind"))
	}
	return rc
}

// build constructs a world from plain material. With mat.sigs == nil the signatures are
// computed (reference world) and stored into mat; otherwise they are copied from it.
func build(rc recipe, mat *material) (w *world, err error) {
	defer func() {
		if r := recover(); r != nil {
			err = fmt.Errorf("%v", r)
		}
	}()
	w = &world{rc: rc, kmacKey: mat.kmacKey, kmacSize: mat.kmacSize}
	w.kmac = crypto.NewExpandMsgXOFKMAC128("roconc-tag")
	w.rawKmac, err = hash.NewKMAC_128(mat.kmacKey, []byte("custom"), mat.kmacSize)
	must(err)
	// the shared instance has pending Write data: ComputeHash must neither use nor disturb it
	_, _ = w.rawKmac.Write([]byte("pending data written before the concurrent run"))
	// messages
	if rc.arena {
		tot := 0
		for _, m := range mat.msgs {
			tot += len(m)
		}
		w.msgArena = make([]byte, tot+64)
		for i := range w.msgArena {
			w.msgArena[i] = 0xEE // guard pattern behind the last message
		}
		off := 0
		for _, m := range mat.msgs {
			copy(w.msgArena[off:], m)
			w.msgs = append(w.msgs, w.msgArena[off:off+len(m)]) // cap reaches to the end of the arena
			off += len(m)
		}
	} else {
		for _, m := range mat.msgs {
			w.msgs = append(w.msgs, cp(m))
		}
	}
	// base keys: decoded from their encodings (fresh objects, affine coordinates)
	for _, b := range mat.baseSK {
		sk, err := crypto.DecodePrivateKey(crypto.BLSBLS12381, b)
		must(err)
		// the public key is derived through a throw-away second object: the private key object of
		// the world has never had PublicKey() called on it (its lazily filled cache is empty)
		tmp, err := crypto.DecodePrivateKey(crypto.BLSBLS12381, b)
		must(err)
		pk, err := crypto.DecodePublicKey(crypto.BLSBLS12381, tmp.PublicKey().Encode())
		must(err)
		w.sks, w.pks = append(w.sks, sk), append(w.pks, pk)
	}
	// derived keys: objects produced by the library's own group arithmetic
	for j, kind := range rc.derived {
		a, b, c3 := j%rc.nk, (j+1)%rc.nk, (j+2)%rc.nk
		switch kind {
		case 0:
			sk, err := crypto.AggregateBLSPrivateKeys([]crypto.PrivateKey{w.sks[a], w.sks[b]})
			must(err)
			pk, err := crypto.AggregateBLSPublicKeys([]crypto.PublicKey{w.pks[a], w.pks[b]})
			must(err)
			w.sks, w.pks = append(w.sks, sk), append(w.pks, pk)
		case 1:
			sk, err := crypto.AggregateBLSPrivateKeys([]crypto.PrivateKey{w.sks[a], w.sks[b]})
			must(err)
			all, err := crypto.AggregateBLSPublicKeys([]crypto.PublicKey{w.pks[a], w.pks[b], w.pks[c3]})
			must(err)
			pk, err := crypto.RemoveBLSPublicKeys(all, []crypto.PublicKey{w.pks[c3]})
			must(err)
			w.sks, w.pks = append(w.sks, sk), append(w.pks, pk)
		case 3:
			// the identity private key: sk_a + (r - sk_a). It signs (every signature is the identity
			// point) and nothing verifies under its public key; a corner the listed operations accept
			negB := curve.ScalarNeg(mat.baseSK[a])
			neg, err := crypto.DecodePrivateKey(crypto.BLSBLS12381, negB)
			must(err)
			sk, err := crypto.AggregateBLSPrivateKeys([]crypto.PrivateKey{w.sks[a], neg})
			must(err)
			pk, err := crypto.AggregateBLSPublicKeys([]crypto.PublicKey{w.pks[a], neg.PublicKey()})
			must(err)
			w.sks, w.pks = append(w.sks, sk), append(w.pks, pk)
		default:
			tsks, tpks, _, err := crypto.BLSThresholdKeyGen(3, 1, mat.thrSeed)
			must(err)
			w.sks, w.pks = append(w.sks, tsks[j%3]), append(w.pks, tpks[j%3])
		}
	}
	nkeys := len(w.sks)
	// signatures, PoPs, SPoCK proofs
	first := mat.sigs == nil
	if first {
		for i := 0; i < nkeys; i++ {
			var row [][]byte
			for _, m := range mat.msgs {
				s, err := w.sks[i].Sign(m, crypto.NewExpandMsgXOFKMAC128("roconc-tag"))
				must(err)
				row = append(row, s)
			}
			mat.sigs = append(mat.sigs, row)
			pop, err := crypto.BLSGeneratePOP(w.sks[i])
			must(err)
			mat.pops = append(mat.pops, pop)
			sp, err := crypto.SPOCKProve(w.sks[i], mat.msgs[0], crypto.NewExpandMsgXOFKMAC128("roconc-tag"))
			must(err)
			mat.spock = append(mat.spock, sp)
		}
	}
	if rc.sigArena {
		w.sigArena = make([]byte, 48*nkeys*len(mat.msgs)+32)
		for i := range w.sigArena {
			w.sigArena[i] = 0xDD
		}
	}
	for i := 0; i < nkeys; i++ {
		var row []crypto.Signature
		for j := range mat.msgs {
			if rc.sigArena {
				off := 48 * (i*len(mat.msgs) + j)
				copy(w.sigArena[off:], mat.sigs[i][j])
				row = append(row, crypto.Signature(w.sigArena[off:off+48]))
			} else {
				row = append(row, cp(mat.sigs[i][j]))
			}
		}
		w.sigs = append(w.sigs, row)
		w.pops = append(w.pops, cp(mat.pops[i]))
		w.spock = append(w.spock, cp(mat.spock[i]))
	}
	// aggregated signature of all keys on message 0, and of key i on message i
	var one, many []crypto.Signature
	for i := 0; i < nkeys; i++ {
		one = append(one, w.sigs[i][0])
		many = append(many, w.sigs[i][i%rc.nm])
		w.manyMsgs = append(w.manyMsgs, w.msgs[i%rc.nm])
		w.manyHs = append(w.manyHs, w.kmac)
	}
	w.aggKeys = append([]crypto.PublicKey(nil), w.pks...)
	w.manyKeys = append([]crypto.PublicKey(nil), w.pks...)
	w.aggSig, err = crypto.AggregateBLSSignatures(one)
	must(err)
	w.manySig, err = crypto.AggregateBLSSignatures(many)
	must(err)
	// a second committee for the one-message verification, and a shared signature table for
	// AggregateBLSSignatures with the identity signature ahead of genuine ones
	w.aggKeys2 = append([]crypto.PublicKey(nil), w.pks[:nkeys-1]...)
	w.aggSig2, err = crypto.AggregateBLSSignatures(one[:nkeys-1])
	must(err)
	idSig := make([]byte, 48)
	idSig[0] = 0xC0
	w.sigTable = append([]crypto.Signature{w.sigs[0][0], crypto.Signature(idSig)}, one[1:]...)
	w.sigTableAgg, err = crypto.AggregateBLSSignatures(cpSigs(w.sigTable))
	must(err)
	w.packedBuf = make([]byte, 48*nkeys)
	for i := 0; i < nkeys; i++ {
		copy(w.packedBuf[48*i:], w.sigs[i][0])
		w.packedSigs = append(w.packedSigs, crypto.Signature(w.packedBuf[48*i:48*i+48])) // cap reaches into the next signature
	}
	// batch-verification lists (shared objects: the same list is handed to every call)
	for bi, kind := range rc.batch {
		bl := batchList{pks: append([]crypto.PublicKey(nil), w.pks...)}
		for i := 0; i < nkeys; i++ {
			bl.sigs = append(bl.sigs, w.sigs[i][0])
		}
		pos := (bi + 1) % nkeys
		switch kind {
		case 0:
		case 1:
			bl.sigs[pos] = w.sigs[pos][1] // signature of another message
		case 2:
			bl.pks[pos] = crypto.IdentityBLSPublicKey()
		case 3:
			bl.sigs[pos] = bl.sigs[pos][:0:0]
		case 4:
			bl.sigs[pos] = cp(bl.sigs[pos][:47])
		default:
			bl.sigs[pos] = append(cp(bl.sigs[pos]), 0)
		}
		w.batches = append(w.batches, bl)
	}
	// ECDSA
	for k, alg := range []crypto.SigningAlgorithm{crypto.ECDSAP256, crypto.ECDSASecp256k1} {
		sk, err := crypto.DecodePrivateKey(alg, mat.ecdsaSK[k])
		must(err)
		tmp, err := crypto.DecodePrivateKey(alg, mat.ecdsaSK[k])
		must(err)
		pk, err := crypto.DecodePublicKey(alg, tmp.PublicKey().Encode())
		must(err)
		if rc.ecdsaFromSK[k] {
			// the object PrivateKey.PublicKey() hands out (the lazily cached getter itself is not
			// in the property's list and is called here, once, sequentially)
			sk2, err := crypto.DecodePrivateKey(alg, mat.ecdsaSK[k])
			must(err)
			pk = sk2.PublicKey()
		}
		w.esk[k], w.epk[k] = sk, pk
		if first {
			for _, m := range mat.msgs {
				s, err := sk.Sign(m, hash.NewSHA3_256())
				must(err)
				mat.esig[k] = append(mat.esig[k], s)
			}
		}
		for _, s := range mat.esig[k] {
			w.esig[k] = append(w.esig[k], cp(s))
		}
	}
	// a key list that contains a non-BLS key: the listed operations must refuse it (error path)
	w.mixedKeys = append([]crypto.PublicKey(nil), w.pks...)
	w.mixedKeys[len(w.mixedKeys)-1-len(rc.batch)%2] = w.epk[0]
	return w, nil
}

func newMaterial(rc recipe, rnd *choice.Src) (mat *material, err error) {
	defer func() {
		if r := recover(); r != nil {
			err = fmt.Errorf("%v", r)
		}
	}()
	mat = &material{kmacKey: rnd.Bytes(16), kmacSize: 32 + rnd.Intn(100), thrSeed: rnd.Bytes(32)}
	for i := 0; i < rc.nm; i++ {
		mat.msgs = append(mat.msgs, rnd.Bytes(1+rnd.Intn(200)))
	}
	for i := 0; i < rc.nk; i++ {
		sk, err := crypto.GeneratePrivateKey(crypto.BLSBLS12381, rnd.Bytes(32))
		must(err)
		mat.baseSK = append(mat.baseSK, sk.Encode())
	}
	for k, alg := range []crypto.SigningAlgorithm{crypto.ECDSAP256, crypto.ECDSASecp256k1} {
		sk, err := crypto.GeneratePrivateKey(alg, rnd.Bytes(32))
		must(err)
		mat.ecdsaSK[k] = sk.Encode()
	}
	return mat, nil
}

func cp(b []byte) []byte { return append(make([]byte, 0, len(b)), b...) }

// scribble overwrites a result the harness has finished with: results belong to the caller,
// so this must be invisible to every other call (a result that aliases library state, a pooled
// buffer or another caller's result shows up as a differing later result).
func scribble(b []byte) {
	for i := range b {
		b[i] ^= 0x5A
	}
}

func cpSigs(l []crypto.Signature) []crypto.Signature {
	o := make([]crypto.Signature, len(l))
	for i := range l {
		o[i] = cp(l[i])
	}
	return o
}

var opNames = []string{"kmac.ComputeHash", "bls.Sign", "bls.Verify", "bls.VerifyWrong", "BLSVerifyPOP", "SPOCKVerify", "VerifyOneMessage", "VerifyManyMessages", "BatchVerify", "ecdsa.Sign", "ecdsa.Verify", "blshasher.ComputeHash", "SPOCKVerifyAgainstData", "errorpath", "AggregateSignatures", "prg.derived"}

// exec performs an operation and returns a canonical result string. Deterministic operations
// return their bytes; ECDSA Sign (randomised) is checked by verification.
func (w *world) exec(o op, own hash.Hasher) (res string) {
	defer func() {
		if r := recover(); r != nil {
			res = fmt.Sprintf("PANIC: %v", r)
		}
	}()
	nk, nm := len(w.pks), len(w.msgs)
	ka, kb, ma, mb := o.a%nk, o.b%nk, o.a%nm, o.b%nm
	switch o.name {
	case "kmac.ComputeHash":
		h := w.rawKmac.ComputeHash(w.msgs[ma])
		r := hex.EncodeToString(h)
		scribble(h)
		return r
	case "blshasher.ComputeHash":
		h := w.kmac.ComputeHash(w.msgs[ma])
		r := hex.EncodeToString(h)
		scribble(h)
		return r
	case "bls.Sign":
		s, err := w.sks[ka].Sign(w.msgs[mb], w.kmac)
		r := fmt.Sprintf("%x %v", []byte(s), err)
		scribble(s)
		return r
	case "bls.Verify":
		ok, err := w.pks[ka].Verify(w.sigs[ka][mb], w.msgs[mb], w.kmac)
		return fmt.Sprint(ok, err)
	case "bls.VerifyWrong":
		ok, err := w.pks[ka].Verify(w.sigs[ka][mb], w.msgs[(mb+1)%nm], w.kmac)
		return fmt.Sprint(ok, err)
	case "BLSVerifyPOP":
		ok, err := crypto.BLSVerifyPOP(w.pks[ka], w.pops[(ka+o.b%2)%len(w.pops)])
		return fmt.Sprint(ok, err)
	case "SPOCKVerify":
		ok, err := crypto.SPOCKVerify(w.pks[ka], w.spock[ka], w.pks[kb], w.spock[kb])
		return fmt.Sprint(ok, err)
	case "SPOCKVerifyAgainstData":
		ok, err := crypto.SPOCKVerifyAgainstData(w.pks[ka], w.spock[ka], w.msgs[o.b%2], w.kmac)
		return fmt.Sprint(ok, err)
	case "VerifyOneMessage":
		if o.b%3 == 2 { // another committee: a memo of "the last key list" must not leak between callers
			ok, err := crypto.VerifyBLSSignatureOneMessage(w.aggKeys2, w.aggSig2, w.msgs[o.a%2], w.kmac)
			return fmt.Sprint("committee2 ", ok, err)
		}
		ok, err := crypto.VerifyBLSSignatureOneMessage(w.aggKeys, w.aggSig, w.msgs[o.a%2], w.kmac)
		return fmt.Sprint(ok, err)
	case "AggregateSignatures":
		// not in the property's list by name, but what aggregate verification is built on: a pure
		// function of a list that other tasks read at the same time
		if o.b%2 == 1 {
			s, err := crypto.AggregateBLSSignatures(w.packedSigs)
			r := fmt.Sprintf("packed %x %v", []byte(s), err)
			scribble(s)
			return r
		}
		s, err := crypto.AggregateBLSSignatures(w.sigTable)
		r := fmt.Sprintf("%x %v", []byte(s), err)
		scribble(s) // a result belongs to the caller: writing to it must not reach anybody else
		return r
	case "VerifyManyMessages":
		ok, err := crypto.VerifyBLSSignatureManyMessages(w.manyKeys, w.manySig, w.manyMsgs, w.manyHs)
		return fmt.Sprint(ok, err)
	case "BatchVerify":
		bl := w.batches[o.a%len(w.batches)]
		ok, err := crypto.BatchVerifyBLSSignaturesOneMessage(bl.pks, bl.sigs, w.msgs[0], w.kmac)
		r := fmt.Sprint(ok, err)
		for i := range ok {
			ok[i] = !ok[i]
		}
		return r
	case "errorpath":
		// the listed operations on inputs they must refuse: non-BLS key in a list, mismatched
		// list lengths, a hasher of the wrong output size
		switch o.b % 4 {
		case 0:
			ok, err := crypto.VerifyBLSSignatureOneMessage(w.mixedKeys, w.aggSig, w.msgs[0], w.kmac)
			return fmt.Sprint("one.nonBLS ", ok, err != nil)
		case 1:
			bl := w.batches[o.a%len(w.batches)]
			ok, err := crypto.BatchVerifyBLSSignaturesOneMessage(w.mixedKeys, bl.sigs, w.msgs[0], w.kmac)
			r := fmt.Sprint("batch.nonBLS ", ok, err != nil)
			for i := range ok {
				ok[i] = true // the caller re-uses the slice it was handed
			}
			return r
		case 2:
			ok, err := crypto.VerifyBLSSignatureManyMessages(w.manyKeys, w.manySig, w.manyMsgs[:len(w.manyMsgs)-1], w.manyHs)
			return fmt.Sprint("many.mismatch ", ok, err != nil)
		default:
			ok, err := w.pks[ka].Verify(w.sigs[ka][mb], w.msgs[mb], own)
			return fmt.Sprint("verify.badhasher ", ok, err != nil)
		}
	case "prg.derived":
		// a generator of the task's OWN (built here from a fixed seed): independent objects do not
		// share state, whatever other generators do at the same time
		seed := make([]byte, 32)
		seed[0], seed[1] = byte(o.a), byte(o.b)
		p, err := random.NewChacha20PRG(seed, []byte("roconc"))
		if err != nil {
			return "err " + err.Error()
		}
		var acc []uint64
		for i := 0; i < 6; i++ {
			acc = append(acc, p.UintN(uint64(1000+37*o.a+i)))
		}
		perm, _ := p.Permutation(5 + o.b)
		return fmt.Sprint(acc, perm)
	case "ecdsa.Sign":
		k := o.a % 2
		s, err := w.esk[k].Sign(w.msgs[mb], own)
		if err != nil {
			return "err " + err.Error()
		}
		ok, err := w.epk[k].Verify(s, w.msgs[mb], own)
		return fmt.Sprint("signed-and-verifies ", ok, err)
	case "ecdsa.Verify":
		k := o.a % 2
		ok, err := w.epk[k].Verify(w.esig[k][mb], w.msgs[(mb+o.a/2)%nm], own)
		return fmt.Sprint(ok, err)
	}
	return "?"
}

// snapshot captures everything that must not change: every argument buffer including the
// spare capacity behind it (arenas and guard bytes), the elements of the shared lists, the
// encodings of all keys and the outputs of the shared hashers.
func (w *world) snapshot() string {
	var b bytes.Buffer
	wr := func(x []byte) { // length-prefixed: a replaced list element of another length shows
		fmt.Fprintf(&b, "[%d]", len(x))
		b.Write(x)
	}
	for _, m := range w.msgs {
		wr(m)
		wr(m[len(m):cap(m)]) // whatever lies behind the message in its backing array
	}
	wr(w.msgArena)
	wr(w.sigArena)
	for i := range w.sks {
		wr(w.sks[i].Encode())
		wr(w.pks[i].Encode())
		wr(w.pops[i])
		wr(w.spock[i])
		for _, s := range w.sigs[i] {
			wr(s)
		}
	}
	wr(w.aggSig)
	wr(w.manySig)
	for _, l := range [][]crypto.PublicKey{w.aggKeys, w.manyKeys} {
		for _, k := range l {
			wr(k.Encode())
		}
	}
	for _, m := range w.manyMsgs {
		wr(m)
	}
	wr(w.aggSig2)
	for _, k := range w.aggKeys2 {
		wr(k.Encode())
	}
	for _, sg := range w.sigTable {
		wr(sg)
	}
	wr(w.packedBuf)
	for _, sg := range w.packedSigs {
		wr(sg)
	}
	for _, bl := range w.batches {
		for i := range bl.sigs {
			wr(bl.sigs[i])
			wr(bl.pks[i].Encode())
		}
	}
	for k := 0; k < 2; k++ {
		wr(w.esk[k].Encode())
		wr(w.epk[k].Encode())
		for _, s := range w.esig[k] {
			wr(s)
		}
	}
	wr(w.kmac.ComputeHash([]byte("probe")))
	wr(w.kmac.SumHash())
	wr(w.rawKmac.ComputeHash([]byte("probe")))
	wr(w.rawKmac.SumHash())
	return hex.EncodeToString(b.Bytes())
}

func (Engine) Run(c *choice.Src, o engine.Opt) (out engine.Out) {
	out = engine.Out{Params: map[string]any{}, Faults: map[string]int{}, Probes: map[string]int{}, SimTime: map[string]int{}}
	var evlog, trace []string
	ev := func(f string, a ...any) {
		s := fmt.Sprintf(f, a...)
		evlog = append(evlog, s)
		if o.Trace {
			trace = append(trace, s)
		}
	}
	viol := func(oracle, class, f string, a ...any) {
		d := fmt.Sprintf(f, a...)
		out.Viols = append(out.Viols, engine.Viol{Property: "C19", Oracle: oracle, Class: class, Detail: d})
		ev("VIOLATION[C19] %s: %s", class, d)
	}
	var fp []string
	defer func() {
		out.Trace = trace
		out.EventHash = engine.HexHash(evlog)
		out.Fingerprint = engine.HashStrings(fp...)
	}()
	rc := drawRecipe(c)
	rnd := c.Sub("inputs")
	mat, err := newMaterial(rc, rnd)
	if err != nil {
		viol("setup", "setup", "%v", err)
		return
	}
	// reference world: sequential baseline and the "unchanged afterwards" comparison
	ref, err := build(rc, mat)
	if err != nil {
		viol("setup", "setup", "%v", err)
		return
	}
	// the concurrent run uses a second world with the same values but FRESH objects (lazily
	// filled caches inside key objects are still empty, coordinates are whatever the
	// library's arithmetic produced, nothing has been normalised by an earlier call)
	w, err := build(rc, mat)
	if err != nil {
		viol("setup", "setup.fresh", "%v", err)
		return
	}
	out.Params["recipe"] = fmt.Sprintf("%+v", rc)
	if rc.arena {
		out.Faults["shape.messages_share_backing_array"]++
	}
	if rc.sigArena {
		out.Faults["shape.signatures_share_backing_array"]++
	}
	for _, k := range rc.derived {
		out.Faults[[]string{"shape.key_aggregated", "shape.key_subtracted", "shape.key_threshold_share", "shape.key_identity"}[k]]++
	}
	for _, k := range rc.batch {
		out.Faults[[]string{"shape.batch_all_valid", "shape.batch_wrong_message", "shape.batch_identity_key", "shape.batch_empty_signature", "shape.batch_short_signature", "shape.batch_long_signature"}[k]]++
	}
	// workload mix (swarm): a subset of the operation kinds is enabled per run
	var enabled []string
	for _, n := range opNames {
		if c.Bool(1, 2, "enable."+n) {
			enabled = append(enabled, n)
		}
	}
	if len(enabled) == 0 {
		enabled = []string{"kmac.ComputeHash"}
	}
	ntasks := 2 + c.Choose(3, "tasks")
	out.Params["tasks"], out.Params["ops_enabled"] = ntasks, enabled
	plans := make([][]op, ntasks)
	for ti := range plans {
		k := 1 + c.Choose(4, "nops")
		for j := 0; j < k; j++ {
			plans[ti] = append(plans[ti], op{name: enabled[c.Choose(len(enabled), "op")], a: c.Choose(8, "a"), b: c.Choose(8, "b")})
		}
	}
	fp = append(fp, fmt.Sprint(ntasks, enabled, rc))
	// sequential baseline: each call alone (scheduler off)
	base := map[op]string{}
	baseHasher := hash.NewSHA3_256()
	baseline := func() {
		for ti := range plans {
			for _, p := range plans[ti] {
				if _, ok := base[p]; !ok {
					base[p] = ref.exec(p, baseHasher) // on the reference world: the shared objects stay untouched until the run
				}
			}
		}
	}
	// in half of the runs the baseline is taken AFTER the concurrent run: the concurrent calls are
	// then the first use of these key and signature VALUES in the process (package-level state
	// keyed by value, e.g. a cache of verified proofs, is still cold)
	baselineAfter := c.Bool(1, 2, "baseline.after")
	if baselineAfter {
		out.Faults["workload.concurrent_calls_are_first_use_of_the_values"]++
	} else {
		baseline()
	}
	// the concurrent run
	results := make([][]string, ntasks)
	var fns []func()
	for ti := range plans {
		ti := ti
		own := hash.NewSHA3_256() // per-task hasher for ECDSA
		fns = append(fns, func() {
			for _, p := range plans[ti] {
				simrt.TaskYield()
				engine.CurrentCall.Store(fmt.Sprintf("task %d %s(%d,%d)", ti, p.name, p.a, p.b))
				results[ti] = append(results[ti], w.exec(p, own))
			}
		})
	}
	sim := simrt.New(func(n int, label string) int { return c.Choose(n, label) }, fns...)
	racelog.Mark()
	panics := sim.Run()
	if baselineAfter && sim.Deadlock == "" {
		baseline()
	}
	if nrep, text := racelog.Since(); nrep > 0 {
		// a report of the Go race detector during THIS run (the worker runs with halt_on_error=0
		// and without duplicate suppression, see package racelog)
		cw := ""
		if sim.CWSite != 0 {
			cw = fmt.Sprintf("C call at Go line %d modifies a Go object of %d bytes that the C call at Go line %d uses concurrently", sim.CWSite, sim.CWBytes, sim.CWOther)
		}
		d := racelog.Classify(text, cw)
		for ti := range plans {
			ev("task %d runs %v", ti, plans[ti])
		}
		for _, sw := range sim.Trace {
			ev("switch to task %d (previous task was at line %d, budget %d)", sw.Task, sw.Site, sw.Budget)
		}
		viol("race", "race:"+d, "%s (%d report(s) in this run)", d, nrep)
		if o.Trace {
			lines := strings.Split(text, "\n")
			if len(lines) > 70 {
				lines = lines[:70]
			}
			trace = append(trace, lines...)
		}
		out.Nontrivial = true
		return
	}
	out.SimTime["scheduler_steps"] += sim.Steps
	out.SimTime["context_switches"] += sim.Switches
	out.SimTime["go_objects_handed_to_C_and_reported_to_race_detector"] += sim.CArgs
	out.SimTime["go_objects_modified_by_C"] += sim.CWrites
	out.Faults["sched.map_iteration_order_drawn"] += sim.MapOrders
	out.Faults["sched.channel_operation_in_library"] += sim.ChanOps
	out.Faults["sched.task_parked_on_channel"] += sim.ChanBlocks
	if sim.Switches > ntasks {
		out.Nontrivial = true
	}
	out.Faults["sched.context_switch"] += sim.Switches
	out.Faults["sched.switch_inside_critical_section"] += sim.SwitchInCrit
	prevTask := -1
	for _, sw := range sim.Trace {
		if sw.Site >= 1000000 && sw.Task != prevTask {
			out.Faults["sched.switch_inside_C_function"]++
		}
		prevTask = sw.Task
		fp = append(fp, fmt.Sprintf("%d@%d", sw.Task, sw.Site))
		ev("switch to task %d (previous task was at line %d, budget %d)", sw.Task, sw.Site, sw.Budget)
	}
	if sim.Deadlock != "" {
		viol("deadlock", "deadlock", "%s", sim.Deadlock)
		return
	}
	for i, p := range panics {
		if p != nil {
			viol("nopanic", "panic.task", "task %d panicked: %v", i, p)
			return
		}
	}
	for ti := range plans {
		for j, p := range plans[ti] {
			got := results[ti][j]
			ev("task %d: %s(%d,%d) -> %.40s", ti, p.name, p.a, p.b, got)
			out.SimTime["operations"]++
			if got != base[p] {
				viol("result", "result-differs:"+p.name, "task %d: %s(%d,%d) returned %.80s when run concurrently but %.80s when run alone", ti, p.name, p.a, p.b, got, base[p])
				return
			}
		}
	}
	if after, want := w.snapshot(), ref.snapshot(); after != want {
		viol("unchanged", "argument-or-object-modified", "messages, signatures, key encodings or shared hasher outputs after the concurrent run differ from those of the untouched reference objects")
	}
	out.Probes["runs_all_results_equal"]++
	return
}
