// Package roconc runs 2-4 tasks that share keys, signatures, messages and hashers and call
// only operations documented as read-only / thread-safe, under the simrt scheduler with the
// race detector as in-simulation oracle (property C19).
//
// Oracles: (1) every result equals the result of the same call made alone during set-up;
// (2) the race detector is silent; (3) all argument buffers, key encodings and the shared
// hashers' outputs are unchanged after the run.
package roconc

import (
	"bytes"
	"encoding/hex"
	"fmt"

	crypto "github.com/onflow/crypto"
	"github.com/onflow/crypto/hash"
	"github.com/onflow/crypto/simrt"

	"verifsim/choice"
	"verifsim/engine"
)

type Engine struct{}

func (Engine) Name() string { return "roconc" }

type op struct {
	name string
	a, b int
}

type world struct {
	// BLS
	sks      []crypto.PrivateKey
	pks      []crypto.PublicKey
	msgs     [][]byte
	sigs     [][]crypto.Signature // sigs[key][msg]
	pops     []crypto.Signature
	kmac     hash.Hasher // shared BLS hasher
	rawKmac  hash.Hasher // shared plain KMAC128 instance
	kmacKey  []byte
	kmacSize int
	aggSig   crypto.Signature
	manySig  crypto.Signature
	spock    []crypto.Signature
	batchBad []crypto.Signature
	// ECDSA
	esk  [2]crypto.PrivateKey
	epk  [2]crypto.PublicKey
	esig [2][]crypto.Signature
}

func must(err error) {
	if err != nil {
		panic(err)
	}
}

func setup(rnd *choice.Src) (*world, error) {
	w := &world{}
	var err error
	defer func() {
		if r := recover(); r != nil {
			err = fmt.Errorf("%v", r)
		}
	}()
	w.kmac = crypto.NewExpandMsgXOFKMAC128("roconc-tag")
	w.kmacKey, w.kmacSize = rnd.Bytes(16), 32+rnd.Intn(100)
	w.rawKmac, err = hash.NewKMAC_128(w.kmacKey, []byte("custom"), w.kmacSize)
	must(err)
	// the shared instance has pending Write data: ComputeHash must neither use nor disturb it
	_, _ = w.rawKmac.Write([]byte("pending data written before the concurrent run"))
	nk := 3
	for i := 0; i < 4; i++ {
		w.msgs = append(w.msgs, rnd.Bytes(1+rnd.Intn(200)))
	}
	for i := 0; i < nk; i++ {
		sk, err := crypto.GeneratePrivateKey(crypto.BLSBLS12381, rnd.Bytes(32))
		must(err)
		w.sks = append(w.sks, sk)
		w.pks = append(w.pks, sk.PublicKey())
		var row []crypto.Signature
		for _, m := range w.msgs {
			s, err := sk.Sign(m, w.kmac)
			must(err)
			row = append(row, s)
		}
		w.sigs = append(w.sigs, row)
		pop, err := crypto.BLSGeneratePOP(sk)
		must(err)
		w.pops = append(w.pops, pop)
		sp, err := crypto.SPOCKProve(sk, w.msgs[0], w.kmac)
		must(err)
		w.spock = append(w.spock, sp)
	}
	var one []crypto.Signature
	for i := 0; i < nk; i++ {
		one = append(one, w.sigs[i][0])
	}
	w.aggSig, err = crypto.AggregateBLSSignatures(one)
	must(err)
	var many []crypto.Signature
	for i := 0; i < nk; i++ {
		many = append(many, w.sigs[i][i])
	}
	w.manySig, err = crypto.AggregateBLSSignatures(many)
	must(err)
	w.batchBad = append([]crypto.Signature(nil), one...)
	w.batchBad[1] = w.sigs[1][1] // wrong message: invalid at index 1
	for k, alg := range []crypto.SigningAlgorithm{crypto.ECDSAP256, crypto.ECDSASecp256k1} {
		sk, err := crypto.GeneratePrivateKey(alg, rnd.Bytes(32))
		must(err)
		w.esk[k], w.epk[k] = sk, sk.PublicKey()
		for _, m := range w.msgs {
			s, err := sk.Sign(m, hash.NewSHA3_256())
			must(err)
			w.esig[k] = append(w.esig[k], s)
		}
	}
	return w, err
}

func cp(b []byte) []byte { return append([]byte(nil), b...) }

func cpSigs(l []crypto.Signature) []crypto.Signature {
	o := make([]crypto.Signature, len(l))
	for i := range l {
		o[i] = cp(l[i])
	}
	return o
}

// fresh builds a second world with the same values but FRESH objects: keys decoded from their
// encodings (never used before, so lazily filled caches inside key objects are still empty),
// new hasher instances, copied byte slices. The concurrent run uses the fresh world; the
// sequential baseline uses the original one.
func (a *world) fresh() (w *world, err error) {
	defer func() {
		if r := recover(); r != nil {
			err = fmt.Errorf("%v", r)
		}
	}()
	w = &world{kmacKey: a.kmacKey, kmacSize: a.kmacSize}
	w.kmac = crypto.NewExpandMsgXOFKMAC128("roconc-tag")
	w.rawKmac, err = hash.NewKMAC_128(a.kmacKey, []byte("custom"), a.kmacSize)
	must(err)
	_, _ = w.rawKmac.Write([]byte("pending data written before the concurrent run"))
	for _, m := range a.msgs {
		w.msgs = append(w.msgs, cp(m))
	}
	for i := range a.sks {
		sk, err := crypto.DecodePrivateKey(crypto.BLSBLS12381, a.sks[i].Encode())
		must(err)
		pk, err := crypto.DecodePublicKey(crypto.BLSBLS12381, a.pks[i].Encode())
		must(err)
		w.sks = append(w.sks, sk)
		w.pks = append(w.pks, pk)
		w.sigs = append(w.sigs, cpSigs(a.sigs[i]))
	}
	w.pops, w.spock, w.batchBad = cpSigs(a.pops), cpSigs(a.spock), cpSigs(a.batchBad)
	w.aggSig, w.manySig = cp(a.aggSig), cp(a.manySig)
	for k, alg := range []crypto.SigningAlgorithm{crypto.ECDSAP256, crypto.ECDSASecp256k1} {
		sk, err := crypto.DecodePrivateKey(alg, a.esk[k].Encode())
		must(err)
		pk, err := crypto.DecodePublicKey(alg, a.epk[k].Encode())
		must(err)
		w.esk[k], w.epk[k] = sk, pk
		w.esig[k] = cpSigs(a.esig[k])
	}
	return w, nil
}

var opNames = []string{"kmac.ComputeHash", "bls.Sign", "bls.Verify", "bls.VerifyWrong", "BLSVerifyPOP", "SPOCKVerify", "VerifyOneMessage", "VerifyManyMessages", "BatchVerify", "ecdsa.Sign", "ecdsa.Verify", "blshasher.ComputeHash"}

// exec performs an operation and returns a canonical result string. Deterministic operations
// return their bytes; ECDSA Sign (randomised) is checked by verification.
func (w *world) exec(o op, own hash.Hasher) (res string) {
	defer func() {
		if r := recover(); r != nil {
			res = fmt.Sprintf("PANIC: %v", r)
		}
	}()
	switch o.name {
	case "kmac.ComputeHash":
		return hex.EncodeToString(w.rawKmac.ComputeHash(w.msgs[o.a]))
	case "blshasher.ComputeHash":
		return hex.EncodeToString(w.kmac.ComputeHash(w.msgs[o.a]))
	case "bls.Sign":
		s, err := w.sks[o.a].Sign(w.msgs[o.b], w.kmac)
		return fmt.Sprintf("%x %v", []byte(s), err)
	case "bls.Verify":
		ok, err := w.pks[o.a].Verify(w.sigs[o.a][o.b], w.msgs[o.b], w.kmac)
		return fmt.Sprint(ok, err)
	case "bls.VerifyWrong":
		ok, err := w.pks[o.a].Verify(w.sigs[o.a][o.b], w.msgs[(o.b+1)%len(w.msgs)], w.kmac)
		return fmt.Sprint(ok, err)
	case "BLSVerifyPOP":
		ok, err := crypto.BLSVerifyPOP(w.pks[o.a], w.pops[(o.a+o.b%2)%len(w.pops)])
		return fmt.Sprint(ok, err)
	case "SPOCKVerify":
		ok, err := crypto.SPOCKVerify(w.pks[o.a], w.spock[o.a], w.pks[o.b%len(w.pks)], w.spock[o.b%len(w.pks)])
		return fmt.Sprint(ok, err)
	case "VerifyOneMessage":
		ok, err := crypto.VerifyBLSSignatureOneMessage(w.pks, w.aggSig, w.msgs[o.a%2], w.kmac)
		return fmt.Sprint(ok, err)
	case "VerifyManyMessages":
		hs := []hash.Hasher{w.kmac, w.kmac, w.kmac}
		ok, err := crypto.VerifyBLSSignatureManyMessages(w.pks, w.manySig, w.msgs[:3], hs)
		return fmt.Sprint(ok, err)
	case "BatchVerify":
		sigs := w.batchBad
		if o.a%2 == 0 {
			sigs = []crypto.Signature{w.sigs[0][0], w.sigs[1][0], w.sigs[2][0]}
		}
		ok, err := crypto.BatchVerifyBLSSignaturesOneMessage(w.pks, sigs, w.msgs[0], w.kmac)
		return fmt.Sprint(ok, err)
	case "ecdsa.Sign":
		k := o.a % 2
		s, err := w.esk[k].Sign(w.msgs[o.b], own)
		if err != nil {
			return "err " + err.Error()
		}
		ok, err := w.epk[k].Verify(s, w.msgs[o.b], own)
		return fmt.Sprint("signed-and-verifies ", ok, err)
	case "ecdsa.Verify":
		k := o.a % 2
		ok, err := w.epk[k].Verify(w.esig[k][o.b], w.msgs[(o.b+o.a/2)%len(w.msgs)], own)
		return fmt.Sprint(ok, err)
	}
	return "?"
}

// snapshot captures everything that must not change.
func (w *world) snapshot() string {
	var b bytes.Buffer
	for _, m := range w.msgs {
		b.Write(m)
	}
	for i := range w.sks {
		b.Write(w.sks[i].Encode())
		b.Write(w.pks[i].Encode())
		b.Write(w.pops[i])
		b.Write(w.spock[i])
		for _, s := range w.sigs[i] {
			b.Write(s)
		}
	}
	b.Write(w.aggSig)
	b.Write(w.manySig)
	for _, s := range w.batchBad {
		b.Write(s)
	}
	for k := 0; k < 2; k++ {
		b.Write(w.esk[k].Encode())
		b.Write(w.epk[k].Encode())
		for _, s := range w.esig[k] {
			b.Write(s)
		}
	}
	b.Write(w.kmac.ComputeHash([]byte("probe")))
	b.Write(w.kmac.SumHash())
	b.Write(w.rawKmac.ComputeHash([]byte("probe")))
	b.Write(w.rawKmac.SumHash())
	return hex.EncodeToString(b.Bytes())
}

func (Engine) Run(c *choice.Src, o engine.Opt) (out engine.Out) {
	out = engine.Out{Params: map[string]any{}, Faults: map[string]int{}, Probes: map[string]int{}, SimTime: map[string]int{}}
	var evlog, trace []string
	ev := func(f string, a ...any) {
		s := fmt.Sprintf(f, a...)
		evlog = append(evlog, s)
		if o.Trace {
			trace = append(trace, s)
		}
	}
	viol := func(oracle, class, f string, a ...any) {
		d := fmt.Sprintf(f, a...)
		out.Viols = append(out.Viols, engine.Viol{Property: "C19", Oracle: oracle, Class: class, Detail: d})
		ev("VIOLATION[C19] %s: %s", class, d)
	}
	var fp []string
	defer func() {
		out.Trace = trace
		out.EventHash = engine.HexHash(evlog)
		out.Fingerprint = engine.HashStrings(fp...)
	}()
	rnd := c.Sub("inputs")
	ref, err := setup(rnd)
	if err != nil {
		viol("setup", "setup", "%v", err)
		return
	}
	w, err := ref.fresh()
	if err != nil {
		viol("setup", "setup.fresh", "%v", err)
		return
	}
	// workload mix (swarm): a subset of the operation kinds is enabled per run
	var enabled []string
	for _, n := range opNames {
		if c.Bool(1, 2, "enable."+n) {
			enabled = append(enabled, n)
		}
	}
	if len(enabled) == 0 {
		enabled = []string{"kmac.ComputeHash"}
	}
	ntasks := 2 + c.Choose(3, "tasks")
	out.Params["tasks"], out.Params["ops_enabled"] = ntasks, enabled
	plans := make([][]op, ntasks)
	for ti := range plans {
		k := 1 + c.Choose(4, "nops")
		for j := 0; j < k; j++ {
			plans[ti] = append(plans[ti], op{name: enabled[c.Choose(len(enabled), "op")], a: c.Choose(3, "a"), b: c.Choose(4, "b")})
		}
	}
	fp = append(fp, fmt.Sprint(ntasks, enabled))
	// sequential baseline: each call alone (scheduler off)
	base := map[op]string{}
	baseHasher := hash.NewSHA3_256()
	for ti := range plans {
		for _, p := range plans[ti] {
			if _, ok := base[p]; !ok {
				base[p] = ref.exec(p, baseHasher) // on the reference world: the shared objects stay untouched until the run
			}
		}
	}
	// the concurrent run
	results := make([][]string, ntasks)
	var fns []func()
	for ti := range plans {
		ti := ti
		own := hash.NewSHA3_256() // per-task hasher for ECDSA
		fns = append(fns, func() {
			for _, p := range plans[ti] {
				simrt.TaskYield()
				results[ti] = append(results[ti], w.exec(p, own))
			}
		})
	}
	sim := simrt.New(func(n int, label string) int { return c.Choose(n, label) }, fns...)
	panics := sim.Run()
	out.SimTime["scheduler_steps"] += sim.Steps
	out.SimTime["context_switches"] += sim.Switches
	if sim.Switches > ntasks {
		out.Nontrivial = true
	}
	out.Faults["sched.context_switch"] += sim.Switches
	out.Faults["sched.switch_inside_critical_section"] += sim.SwitchInCrit
	prevTask := -1
	for _, sw := range sim.Trace {
		if sw.Site >= 1000000 && sw.Task != prevTask {
			out.Faults["sched.switch_inside_C_function"]++
		}
		prevTask = sw.Task
		fp = append(fp, fmt.Sprintf("%d@%d", sw.Task, sw.Site))
		ev("switch to task %d (previous task was at line %d, budget %d)", sw.Task, sw.Site, sw.Budget)
	}
	if sim.Deadlock != "" {
		viol("deadlock", "deadlock", "%s", sim.Deadlock)
		return
	}
	for i, p := range panics {
		if p != nil {
			viol("nopanic", "panic.task", "task %d panicked: %v", i, p)
			return
		}
	}
	for ti := range plans {
		for j, p := range plans[ti] {
			got := results[ti][j]
			ev("task %d: %s(%d,%d) -> %.40s", ti, p.name, p.a, p.b, got)
			out.SimTime["operations"]++
			if got != base[p] {
				viol("result", "result-differs:"+p.name, "task %d: %s(%d,%d) returned %.80s when run concurrently but %.80s when run alone", ti, p.name, p.a, p.b, got, base[p])
				return
			}
		}
	}
	if after, want := w.snapshot(), ref.snapshot(); after != want {
		viol("unchanged", "argument-or-object-modified", "messages, signatures, key encodings or shared hasher outputs after the concurrent run differ from those of the untouched reference objects")
	}
	out.Probes["runs_all_results_equal"]++
	return
}
