// Package dkgsim simulates n participants of Feldman VSS, Feldman-VSS-Qual or
// Joint-Feldman (real library instances) talking through a simulated transport with
// private channels, reliable broadcast, caller-driven round timers and up to t Byzantine
// participants (real instance + output mutator + injector). One choice stream decides
// every delivery, timer, fault and Byzantine action.
//
// Modes: "proto" (round-synchronous world of properties C07/C08) and "chaos" (arbitrary
// call histories for C09/C10).
package dkgsim

import (
	"bytes"
	"encoding/hex"
	"fmt"
	"runtime/debug"
	"sort"
	"strings"

	crypto "github.com/onflow/crypto"

	"verifsim/choice"
	"verifsim/engine"
)

const (
	FVSS = 0
	QUAL = 1
	JF   = 2
)

var protoName = []string{"FeldmanVSS", "FeldmanVSSQual", "JointFeldman"}

const (
	tagShare     = 0
	tagVec       = 1
	tagComplaint = 2
	tagAnswer    = 3
)

// Msg is a message in flight.
type Msg struct {
	ID     int
	From   int
	To     int
	Bcast  bool
	Data   []byte
	Round  int
	Kind   string // share|vec|complaint|answer|empty|raw
	Label  string // honest | byz:<what>
	BSeq   int    // broadcast sequence number of the sender (FIFO per sender), -1 for private
	Poly   string // semantic label of shares / answers / vectors: "A" (real polynomial), "B" (shadow), "X" other, "" n/a
	Idx    int    // evaluation index of a share / answer (participant), complainee of a complaint
	Well   bool   // well-formed for its kind
	Shape  bool   // right length and indices in range (the payload values may still be invalid)
	Inject bool
}

func (m *Msg) String() string {
	ch := "priv"
	to := fmt.Sprint(m.To)
	if m.Bcast {
		ch = "bcast"
	}
	d := hex.EncodeToString(m.Data)
	if len(d) > 24 {
		// the event log (and thus the event hash) covers all bytes through this digest
		d = d[:24] + fmt.Sprintf("..(%dB,#%016x)", len(m.Data), engine.HashStrings(d))
	}
	return fmt.Sprintf("#%d %s %d->%s r%d %s [%s] %s", m.ID, ch, m.From, to, m.Round, m.Kind, m.Label, d)
}

type callback struct {
	reporter, target int
	kind             string // disq | flag
	log              string
}

// Node is one participant.
type Node struct {
	idx     int
	byz     bool
	st      crypto.DKGState
	w       *World
	round   int // 0 = not started, 1..3 running, 4 ended
	started bool
	ended   bool
	endErr  error
	sk      crypto.PrivateKey
	gpk     crypto.PublicKey
	pks     []crypto.PublicKey
	disq    map[int]bool // targets of Disqualify callbacks
	forced  map[int]bool // ForceDisqualify issued by the simulator
	crashed bool         // this node panicked inside the library
	calls   int
	muted   bool // output suppressed (twin bookkeeping / shadow)
}

// DKGProcessor implementation -----------------------------------------------------------

func (n *Node) PrivateSend(dest int, data []byte) {
	n.w.emit(n, dest, false, append([]byte(nil), data...))
}
func (n *Node) Broadcast(data []byte) { n.w.emit(n, -1, true, append([]byte(nil), data...)) }
func (n *Node) Disqualify(i int, log string) {
	n.w.onCallback(callback{n.idx, i, "disq", log})
}
func (n *Node) FlagMisbehavior(i int, log string) {
	n.w.onCallback(callback{n.idx, i, "flag", log})
}

// Byz is the state of a Byzantine participant's mutator / injector.
type Byz struct {
	idx          int
	realShares   map[int][]byte // 32-byte scalars emitted by the real instance, per receiver
	realVec      []byte         // payload (without tag) of the real vector
	shadowShares map[int][]byte
	shadowVec    []byte
	truncShares  map[int][]byte // "truncated vector" attack (see makeTruncated), nil if off
	truncVec     []byte
	held         []*Msg // messages of the real instance held back, sent later in the round (own order of broadcasts changed)
	faulted      []int  // receivers whose private share was omitted / replaced / malformed (the injector prefers them)
	torsionFor   int    // >= 0: torsion-cancelling vector attack aimed at this participant
	torsionFermat bool  // A_p + T, A_{p+12} - T with ord(T) = 13 (see setup)
	resendFor    int    // >= 0: resend template aimed at this receiver (see emit)
	planned      []*Msg // template steps still to be sent as unsolicited actions
	bias         map[string]int // swarm: message kind -> action this participant prefers in this run (1 omit .. 6 hold back)
	floor        int // broadcasts never land in an earlier round than a previous one of the same sender
	crashAt      int // event count at which the participant crash-stops (0 = never)
	crashed      bool
}

type vecInfo struct {
	round int
	well  bool
	poly  string
}
type ansInfo struct {
	round int
	well  bool
	poly  string
	idx   int
}

// World is one simulated run.
type World struct {
	c     *choice.Src
	o     engine.Opt
	out   *engine.Out
	prop  string
	proto int
	n, t  int
	dealer int // single-dealer protocols
	nodes []*Node
	byz   map[int]*Byz
	pending []*Msg
	nextID  int
	bseq    []int
	events  int

	evlog []string
	trace []string
	fp    []string

	faultBudget int
	pFault      int // out of 16
	echo        bool
	strategy    int
	starved     int
	script      [5][]int // script[round]: Byzantine indices with one pending injection each
	maxRound    int
	injectRound int

	// bookkeeping for C08 expectations (labels, never recomputed curve points)
	vecFirst     map[int]*vecInfo          // dealer -> first vector broadcast
	complainers  map[int]map[int]bool      // dealer -> origins of well-formed complaints landing in rounds 1..2
	honestCompl  map[int]map[int]bool      // dealer -> honest complainers
	ansFirst     map[int]map[int]*ansInfo  // dealer -> complainer -> first answer
	badAnswer    map[int]bool              // dealer broadcast an answer of wrong shape in rounds 1..3
	firstPriv    map[[2]int]*Msg           // (dealer, receiver) -> first private message delivered in round 1 (Qual / Joint-Feldman)
	shareFirst   map[int]*Msg              // plain VSS: receiver -> first private message from the dealer (delivery order)
	unrelatedAt  int // event count at which an unrelated DKG instance is constructed (0 = never)
	nonzeroSched bool
	aborted      bool
	seeds        [][]byte
	firstVecBytes map[int][]byte // dealer -> payload of its first vector broadcast
	history      [][]byte       // payloads real instances emitted (chaos mode reuses and mutates them)
}

func (w *World) ev(f string, a ...any) {
	s := fmt.Sprintf(f, a...)
	w.evlog = append(w.evlog, s)
	if w.o.Trace {
		w.trace = append(w.trace, s)
	}
}

func (w *World) viol(prop, oracle, class, f string, a ...any) {
	d := fmt.Sprintf(f, a...)
	w.out.Viols = append(w.out.Viols, engine.Viol{Property: prop, Oracle: oracle, Class: class, Detail: d})
	w.ev("VIOLATION[%s] %s: %s", prop, class, d)
}

func (w *World) fault(kind string) {
	w.out.Faults[kind]++
}
func (w *World) probe(kind string) {
	w.out.Probes[kind]++
}

func (w *World) honest(i int) bool { return i >= 0 && i < w.n && !w.nodes[i].byz }

func (w *World) isDealer(i int) bool {
	if w.proto == JF {
		return i >= 0 && i < w.n
	}
	return i == w.dealer
}

// call wraps a library call: panics are caught and reported.
func (w *World) call(n *Node, what string, f func() error) (err error, panicked bool) {
	defer func() {
		if r := recover(); r != nil {
			panicked = true
			n.crashed = true
			loc := panicSite(string(debug.Stack()))
			class := fmt.Sprintf("panic:%s:%s", protoName[w.proto], loc)
			det := fmt.Sprintf("node %d (%s) %s panicked: %v at %s", n.idx, role(n), what, r, loc)
			w.viol("C09", "nopanic", class, "%s", det)
			if w.prop != "C09" {
				w.viol(w.prop, "nopanic", class, "%s", det)
			}
		}
	}()
	n.calls++
	engine.CurrentCall.Store(fmt.Sprintf("%s on node %d (%s)", what, n.idx, protoName[w.proto]))
	err = f()
	return
}

func role(n *Node) string {
	if n.byz {
		return "byzantine"
	}
	return "honest"
}

// panicSite extracts the first stack frame inside the library (file:line).
func panicSite(stack string) string {
	lines := strings.Split(stack, "\n")
	for _, l := range lines {
		l = strings.TrimSpace(l)
		if !strings.Contains(l, ".go:") {
			continue
		}
		if strings.Contains(l, "/repo/") && !strings.Contains(l, "/simrt/") {
			p := l[strings.LastIndex(l, "/")+1:]
			if i := strings.Index(p, " "); i > 0 {
				p = p[:i]
			}
			return p
		}
	}
	return "unknown"
}

func classify(bcast bool, data []byte) string {
	if !bcast {
		return "share"
	}
	if len(data) == 0 {
		return "empty"
	}
	switch data[0] {
	case tagVec:
		return "vec"
	case tagComplaint:
		return "complaint"
	case tagAnswer:
		return "answer"
	}
	return "raw"
}

// enqueue puts a message into the network.
func (w *World) enqueue(m *Msg) {
	if len(w.history) < 64 {
		w.history = append(w.history, m.Data)
	}
	if m.Bcast {
		// one copy per receiver, same bytes (reliable broadcast)
		seq := w.bseq[m.From]
		w.bseq[m.From]++
		m.ID = w.nextID
		for j := 0; j < w.n; j++ {
			if j == m.From && !w.echo {
				continue
			}
			cp := *m
			cp.ID = w.nextID
			w.nextID++
			cp.To = j
			cp.BSeq = seq
			w.pending = append(w.pending, &cp)
		}
		w.ev("emit %s", m)
		w.noteBroadcast(m)
		return
	}
	m.ID = w.nextID
	w.nextID++
	m.BSeq = -1
	w.pending = append(w.pending, m)
	w.ev("emit %s", m)
}

// noteBroadcast records what the C08 expectations need (at emission: broadcasts of a sender
// are FIFO, so emission order is delivery order at every receiver).
func (w *World) noteBroadcast(m *Msg) {
	d := m.From
	switch m.Kind {
	case "vec":
		if w.isDealer(d) && w.vecFirst[d] == nil {
			r := m.Round
			if w.proto == FVSS && r > 1 {
				r = 99 // plain VSS has a single round: a late vector never arrives
			}
			w.vecFirst[d] = &vecInfo{round: r, well: m.Well, poly: m.Poly}
			if w.firstVecBytes == nil {
				w.firstVecBytes = map[int][]byte{}
			}
			w.firstVecBytes[d] = append([]byte(nil), m.Data[1:]...)
		}
	case "complaint":
		if m.Well && m.Round <= 2 && w.isDealer(m.Idx) && m.From != m.Idx {
			if w.complainers[m.Idx] == nil {
				w.complainers[m.Idx] = map[int]bool{}
				w.honestCompl[m.Idx] = map[int]bool{}
			}
			w.complainers[m.Idx][m.From] = true
			if w.honest(m.From) {
				w.honestCompl[m.Idx][m.From] = true
			}
		}
	case "answer":
		if !w.isDealer(d) || m.Round > 3 {
			return
		}
		if !m.Shape {
			// wrong length or complainer out of range: disqualifies the dealer whenever it lands
			w.badAnswer[d] = true
			return
		}
		j := int(m.Data[1])
		if w.ansFirst[d] == nil {
			w.ansFirst[d] = map[int]*ansInfo{}
		}
		if w.ansFirst[d][j] == nil {
			w.ansFirst[d][j] = &ansInfo{round: m.Round, well: m.Well, poly: m.Poly, idx: m.Idx}
		}
	}
}

func (w *World) onCallback(cb callback) {
	rep := w.nodes[cb.reporter]
	w.ev("callback %s: node %d -> target %d", cb.kind, cb.reporter, cb.target)
	if w.o.Trace {
		w.trace[len(w.trace)-1] += " (" + clipStr(cb.log, 90) + ")"
	}
	if cb.kind == "disq" {
		rep.disq[cb.target] = true
	}
	if !rep.byz && w.honest(cb.target) && !rep.forced[cb.target] && w.o.Mode != "chaos" {
		kind := "disqualified"
		if cb.kind == "flag" {
			kind = "flagged"
		}
		// class is keyed by the protocol and the first words of the log (stable part)
		w.viol("C08", "honest.blamed", fmt.Sprintf("honest.%s:%s:%s", kind, protoName[w.proto], logKey(cb.log)),
			"honest node %d %s honest node %d: %s", cb.reporter, kind, cb.target, clipStr(cb.log, 120))
	}
}

func clipStr(s string, n int) string {
	if len(s) > n {
		return s[:n] + "..."
	}
	return s
}

func logKey(s string) string {
	f := strings.Fields(s)
	if len(f) > 4 {
		f = f[:4]
	}
	k := strings.Join(f, "_")
	// drop digits so that indices do not create new classes
	var b strings.Builder
	for _, r := range k {
		if r >= '0' && r <= '9' {
			continue
		}
		b.WriteRune(r)
	}
	return b.String()
}

// newInstance builds a real protocol instance for node i.
func (w *World) newInstance(n *Node) error {
	var err error
	switch w.proto {
	case FVSS:
		n.st, err = crypto.NewFeldmanVSS(w.n, w.t, n.idx, n, w.dealer)
	case QUAL:
		n.st, err = crypto.NewFeldmanVSSQual(w.n, w.t, n.idx, n, w.dealer)
	case JF:
		n.st, err = crypto.NewJointFeldman(w.n, w.t, n.idx, n)
	}
	return err
}

// shadow runs a throw-away dealer with another seed to obtain a second, well-formed,
// internally consistent dealing (vector B and shares B_j) for Byzantine dealer b.
type capture struct {
	shares map[int][]byte
	vec    []byte
}

func (c *capture) PrivateSend(dest int, data []byte) {
	if len(data) == 33 {
		c.shares[dest] = append([]byte(nil), data[1:]...)
	}
}
func (c *capture) Broadcast(data []byte) {
	if len(data) > 1 && data[0] == tagVec {
		c.vec = append([]byte(nil), data[1:]...)
	}
}
func (c *capture) Disqualify(int, string)      {}
func (c *capture) FlagMisbehavior(int, string) {}

func (w *World) makeShadow(b *Byz, seed []byte) {
	cp := &capture{shares: map[int][]byte{}}
	st, err := crypto.NewFeldmanVSS(w.n, w.t, b.idx, cp, b.idx)
	if err != nil {
		return
	}
	if err := st.Start(seed); err != nil {
		return
	}
	b.shadowShares = cp.shares
	b.shadowVec = cp.vec
}

// makeTruncated prepares the "truncated vector" attack of Byzantine dealer b: a dealing of a
// polynomial of LOWER degree k-1 (its k vector points and matching shares), to be followed in
// the broadcast vector by an undecodable point and padding. A receiver that keeps processing
// a vector after a decoding error would derive public keys from the first k points only, and
// the shares would match them. k=1 uses a constant polynomial P = s (vector point s*g2
// obtained by encoding the public key of private key s).
func (w *World) makeTruncated(b *Byz, seed []byte, k int) {
	if k >= 2 {
		cp := &capture{shares: map[int][]byte{}}
		st, err := crypto.NewFeldmanVSS(w.n, k-1, b.idx, cp, b.idx)
		if err != nil {
			return
		}
		if err := st.Start(seed); err != nil {
			return
		}
		b.truncShares, b.truncVec = cp.shares, cp.vec
		return
	}
	sc := append([]byte(nil), seed[:32]...)
	sc[0] &= 0x3f // < r
	sc[31] |= 1   // non-zero
	sk, err := crypto.DecodePrivateKey(crypto.BLSBLS12381, sc)
	if err != nil {
		return
	}
	b.truncVec = sk.PublicKey().Encode()
	b.truncShares = map[int][]byte{}
	for j := 0; j < w.n; j++ {
		b.truncShares[j] = sc
	}
}

func sortedKeys(m map[int]bool) []int {
	var k []int
	for i, v := range m {
		if v {
			k = append(k, i)
		}
	}
	sort.Ints(k)
	return k
}

func encPub(k crypto.PublicKey) string {
	if k == nil {
		return "nil"
	}
	return hex.EncodeToString(k.Encode())
}

func sameBytes(a, b []byte) bool { return bytes.Equal(a, b) }
