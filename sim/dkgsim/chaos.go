package dkgsim

import (
	"fmt"

	crypto "github.com/onflow/crypto"

	"verifsim/choice"
	"verifsim/curve"
	"verifsim/engine"
)

// Chaos mode: arbitrary call histories on live instances (properties C09 and C10).
//
// The "faults" are what a deployment gets wrong around a DKG instance: timers firing early,
// twice or never, messages delivered before Start or after End, a second Start, origins that
// were never authenticated, garbage payloads. Oracles:
//   C09  no call panics (every call runs under recover), errors are of a documented class;
//   C10  (1) a 40-line reference state machine predicts the error class of every call and
//        Running(); (2) differential twin: the same choice log is executed a second time with
//        all calls the model predicts to be REJECTED left out; messages emitted, callbacks and
//        End results must be identical.

type phase int

const (
	idle phase = iota
	running
	ended
	unknown // after a failed Start (only generated for C09): not modelled
)

type model struct {
	ph       phase
	timeouts int
}

type chaosNode struct {
	*Node
	m model
}

type chaosWorld struct {
	*World
	cn        []*chaosNode
	pool      []*Msg // undelivered real messages
	skip      bool // twin pass: leave out calls predicted to be rejected
	script    []string
	rejected  int
	accepted  int
}

// predict returns the error class the documented state machine prescribes for a call, and
// whether the call is "rejected" (must not change anything).
func (cw *chaosWorld) predict(n *chaosNode, call string, idx int) (class string, rejected bool) {
	inRange := idx >= 0 && idx < cw.n
	switch call {
	case "Start":
		if n.m.ph == running {
			return "state", true
		}
		return "nil", false
	case "StartShortSeed":
		// documented: refused while running; a dealer refuses a too short seed with an
		// invalid-input error and does not start; a non-dealer ignores the seed
		if n.m.ph == running {
			return "state", true
		}
		if cw.World.isDealer(n.idx) {
			return "input", true
		}
		return "nil", false
	case "NextTimeout":
		if cw.proto == FVSS {
			return "nil", false // no timeouts in plain Feldman VSS: documented no-op
		}
		if n.m.ph != running || n.m.timeouts >= 2 {
			return "state", true
		}
		return "nil", false
	case "End":
		if n.m.ph != running {
			return "state", true
		}
		if cw.proto != FVSS && n.m.timeouts < 2 {
			return "state", true
		}
		return "nil|failure", false
	case "HandleBroadcastMsg", "HandlePrivateMsg", "ForceDisqualify":
		if n.m.ph != running {
			return "state", true
		}
		if !inRange {
			return "input", true
		}
		return "nil", false
	}
	return "?", false
}

func (cw *chaosWorld) apply(n *chaosNode, call string) {
	switch call {
	case "Start", "StartShortSeed":
		n.m.ph = running
		n.m.timeouts = 0
	case "NextTimeout":
		if cw.proto != FVSS {
			n.m.timeouts++
		}
	case "End":
		n.m.ph = ended
	}
}

// do performs one API call on node n, checks it against the model and records it.
func (cw *chaosWorld) do(n *chaosNode, call string, idx int, data []byte, f func() error) {
	w := cw.World
	class, rejected := cw.predict(n, call, idx)
	desc := fmt.Sprintf("node %d %s", n.idx, call)
	switch call {
	case "HandleBroadcastMsg", "HandlePrivateMsg":
		desc += fmt.Sprintf("(orig=%d, %d bytes)", idx, len(data))
	case "ForceDisqualify":
		desc += fmt.Sprintf("(%d)", idx)
	}
	if n.m.ph == unknown {
		// not modelled: only the no-panic oracle applies
		_, _ = w.call(n.Node, call, f)
		w.ev("%s [unmodelled phase]", desc)
		return
	}
	if rejected {
		cw.rejected++
		w.fault("lifecycle.rejected." + call)
		if cw.skip {
			return // the twin never makes this call
		}
	} else {
		cw.accepted++
	}
	err, panicked := w.call(n.Node, call, f)
	if panicked {
		w.ev("%s -> PANIC", desc)
		return
	}
	got := errClass(err)
	okc := got == class
	if class == "nil|failure" {
		okc = got == "nil" || got == "failure"
	}
	if rejected {
		// rejected calls are not part of the transcript that the twin compares
		if w.o.Trace {
			w.trace = append(w.trace, fmt.Sprintf("%s -> %s (rejected, model: %s)", desc, got, class))
		}
	} else {
		w.ev("%s -> %s", desc, got)
	}
	if !okc {
		ph := []string{"idle", "running", "ended", "unknown"}[n.m.ph]
		w.viol("C10", "model.errclass", fmt.Sprintf("statemachine:%s:%s:%s:got-%s-want-%s", protoName[cw.proto], call, ph, got, class),
			"%s in phase %s (timeouts=%d) returned class %s (%v), the documented state machine prescribes %s", desc, ph, n.m.timeouts, got, err, class)
		if got != "state" && got != "input" && got != "nil" && got != "failure" {
			w.viol("C09", "errclass", "undocumented-error:"+protoName[cw.proto]+":"+call, "%s returned an error outside the documented classes: %v", desc, err)
		}
		if class == "input" && got == "nil" {
			// C09: an out-of-range index must be reported through the typed error, not accepted
			w.viol("C09", "invalid-input", "invalid-input-accepted:"+protoName[cw.proto]+":"+call, "%s was accepted with a nil error", desc)
		}
	}
	if !rejected && (err == nil || call == "End") {
		cw.apply(n, call)
	}
	// Running() must follow the model after every call
	r := false
	_, p := w.call(n.Node, "Running", func() error { r = n.st.Running(); return nil })
	if !p && r != (n.m.ph == running) {
		w.viol("C10", "model.running", fmt.Sprintf("running:%s:after-%s", protoName[cw.proto], call),
			"after %s Running()=%v but the model is in phase %d", desc, r, n.m.ph)
	}
}

func runChaos(c *choice.Src, o engine.Opt, out *engine.Out) {
	var t1, t2 []string
	cw := chaosPass(c, o, out, false)
	t1 = cw.evlog
	out.Trace = cw.trace
	out.EventHash = engine.HexHash(cw.evlog)
	out.Fingerprint = engine.HashStrings(cw.fp...)
	out.Nontrivial = cw.rejected > 0 || sumFaults(out.Faults) > 0
	if len(out.Viols) > 0 || cw.rejected == 0 {
		return
	}
	// differential twin: same choices, rejected calls left out
	var out2 engine.Out
	out2 = engine.Out{Params: map[string]any{}, Faults: map[string]int{}, Probes: map[string]int{}, SimTime: map[string]int{}}
	o2 := o
	o2.Trace = false
	cw2 := chaosPass(choice.Replay(c.Log), o2, &out2, true)
	t2 = cw2.evlog
	out.Probes["twin_runs"]++
	out.Probes["twin_rejected_calls_left_out"] += cw.rejected
	if len(t1) != len(t2) {
		div := firstDiff(t1, t2)
		cw.World.out = out
		cw.viol("C10", "twin", "twin.diverged:"+protoName[cw.proto], "run with rejected calls and run without them differ at event %d: %q vs %q", div, at(t1, div), at(t2, div))
		out.Trace = cw.trace
		return
	}
	for i := range t1 {
		if t1[i] != t2[i] {
			cw.World.out = out
			cw.viol("C10", "twin", "twin.diverged:"+protoName[cw.proto], "run with rejected calls and run without them differ at event %d: %q vs %q", i, t1[i], t2[i])
			out.Trace = cw.trace
			return
		}
	}
}

func at(l []string, i int) string {
	if i < len(l) {
		return l[i]
	}
	return "<end>"
}

func firstDiff(a, b []string) int {
	for i := 0; i < len(a) && i < len(b); i++ {
		if a[i] != b[i] {
			return i
		}
	}
	if len(a) < len(b) {
		return len(a)
	}
	return len(b)
}

func chaosPass(c *choice.Src, o engine.Opt, out *engine.Out, skip bool) *chaosWorld {
	w := &World{c: c, o: o, out: out, prop: o.Property}
	cw := &chaosWorld{World: w, skip: skip}
	w.proto = c.Choose(3, "proto")
	if (o.Property == "C09" || o.Property == "C10") && c.Bool(1, 32, "boundary-config") {
		boundaryConfig(cw)
		return cw
	}
	w.n = 2 + c.Choose(4, "n")
	if c.Bool(1, 24, "n.larger") {
		w.n = 9 + c.Choose(12, "n.value") // call histories on instances of larger groups
	}
	w.t = 1 + c.Choose(w.n-1, "t")
	w.dealer = c.Choose(w.n, "dealer")
	w.nodes = make([]*Node, w.n)
	w.bseq = make([]int, w.n)
	w.byz = map[int]*Byz{}
	w.vecFirst = map[int]*vecInfo{}
	w.complainers = map[int]map[int]bool{}
	w.honestCompl = map[int]map[int]bool{}
	w.ansFirst = map[int]map[int]*ansInfo{}
	w.badAnswer = map[int]bool{}
	w.shareFirst = map[int]*Msg{}
	w.echo = true // every broadcast is also offered to its sender
	raw := o.Property == "C09" || c.Bool(1, 3, "rawpayloads")
	out.Params["proto"] = protoName[w.proto]
	out.Params["n"], out.Params["t"], out.Params["dealer"] = w.n, w.t, w.dealer
	out.Params["raw_payloads"] = raw
	w.fp = append(w.fp, fmt.Sprint("chaos", w.proto, w.n, w.t, w.dealer))
	seeds := c.Sub("seeds")
	w.seeds = make([][]byte, w.n)
	for i := range w.nodes {
		w.nodes[i] = &Node{idx: i, w: w, disq: map[int]bool{}, forced: map[int]bool{}}
		w.seeds[i] = seeds.Bytes(32)
		if err := w.newInstance(w.nodes[i]); err != nil {
			w.viol(w.prop, "setup", "setup.constructor", "constructor failed: %v", err)
			return cw
		}
		cw.cn = append(cw.cn, &chaosNode{Node: w.nodes[i]})
	}
	w.ev("chaos world %s n=%d t=%d dealer=%d", protoName[w.proto], w.n, w.t, w.dealer)
	steps := 8 + c.Choose(60, "steps")
	if o.Tier == "thorough" {
		steps = 8 + c.Choose(150, "steps")
	}
	// weights of the action kinds for this run (swarm)
	wDeliver := 4 + c.Choose(8, "w.deliver")
	wStart := 1 + c.Choose(3, "w.start")
	wTimer := 1 + c.Choose(4, "w.timer")
	wEnd := c.Choose(3, "w.end")
	wForce := c.Choose(3, "w.force")
	wBadOrig := c.Choose(3, "w.badorig")
	wRaw := 0
	if raw {
		wRaw = 1 + c.Choose(6, "w.raw")
	}
	wShortSeed := c.Choose(2, "w.shortseed")
	// out-of-range indices, incl. values that wrap to a valid participant when converted to a byte
	badIdx := []int{-1, w.n, 255, 256, 1<<31 - 1, -1 << 31, 256 + w.dealer, 256 + c.Choose(w.n, "badidx.wrap"), 512 + w.dealer, 1 << 16, -256 + w.dealer, w.n + 1}
	for s := 0; s < steps; s++ {
		for _, n := range w.nodes {
			if n.crashed {
				return cw
			}
		}
		k := c.Weighted([]int{wDeliver, wStart, wTimer, wEnd, wForce, wBadOrig, wRaw, wShortSeed}, "action")
		n := cw.cn[c.Choose(w.n, "node")]
		w.fp = append(w.fp, fmt.Sprintf("a%d:%d:%d", k, n.m.ph, n.m.timeouts))
		w.out.SimTime["api_calls"]++
		switch k {
		case 0: // deliver a pending real message to its addressee, whatever its phase
			if len(w.pending) == 0 {
				continue
			}
			i := c.Choose(len(w.pending), "which")
			m := w.removePending(i)
			r := cw.cn[m.To]
			if r.m.ph == idle {
				w.fault("lifecycle.delivery_before_start")
			} else if r.m.ph == ended {
				w.fault("lifecycle.delivery_after_end")
			}
			if m.Bcast {
				cw.do(r, "HandleBroadcastMsg", m.From, m.Data, func() error { return r.st.HandleBroadcastMsg(m.From, m.Data) })
			} else {
				cw.do(r, "HandlePrivateMsg", m.From, m.Data, func() error { return r.st.HandlePrivateMsg(m.From, m.Data) })
			}
		case 1:
			if n.m.ph == ended && o.Property == "C09" && c.Bool(1, 2, "restart.after.end") {
				// re-using an instance after End is unspecified for C10 (outside its quantifier), but it
				// is a call history all the same: whatever happens, nothing may panic (C09). From here
				// on the node is unmodelled: only the no-panic oracle applies to it.
				w.fault("lifecycle.restart_after_end")
				err, _ := w.call(n.Node, "Start(after End)", func() error { return n.st.Start(w.seeds[n.idx]) })
				w.ev("node %d Start after End -> %s [unmodelled from here]", n.idx, errClass(err))
				n.m.ph = unknown
				n.round = 1
				continue
			}
			if n.m.ph == ended || n.m.ph == unknown {
				continue // restarting an instance after End is outside the quantifier
			}
			if n.m.ph == running {
				w.fault("lifecycle.second_start")
			}
			n.round = 1
			if n.m.ph == running && c.Bool(1, 3, "start.shortseed") {
				// a second Start is refused whatever its argument
				l := []int{0, 1, 31}[c.Choose(3, "start.shortseed.len")]
				cw.do(n, "Start", 0, nil, func() error { return n.st.Start(make([]byte, l)) })
				break
			}
			if n.m.ph == running && c.Bool(1, 2, "start.otherseed") {
				// ... also with another VALID seed (a refused Start must not re-derive anything)
				other := c.Sub("start.otherseed.bytes").Bytes(32)
				cw.do(n, "Start", 0, nil, func() error { return n.st.Start(other) })
				break
			}
			cw.do(n, "Start", 0, nil, func() error { return n.st.Start(w.seeds[n.idx]) })
		case 2:
			switch {
			case n.m.ph != running:
				w.fault("lifecycle.timer_when_not_running")
			case n.m.timeouts >= 2:
				w.fault("lifecycle.third_timer")
			default:
				w.fault("lifecycle.timer_at_arbitrary_time")
			}
			cw.do(n, "NextTimeout", 0, nil, func() error { return n.st.NextTimeout() })
		case 3:
			if n.m.ph == running && w.proto != FVSS && n.m.timeouts < 2 {
				w.fault("lifecycle.end_before_timeouts")
			}
			cw.do(n, "End", 0, nil, func() error {
				sk, gpk, pks, err := n.st.End()
				if err == nil {
					w.ev("node %d End keys: sk=%x gpk=%s n=%d", n.idx, sk.Encode(), encPub(gpk), len(pks))
				}
				return err
			})
		case 4:
			idx := c.Choose(w.n, "force.idx")
			if c.Bool(1, 3, "force.bad") {
				idx = badIdx[c.Choose(len(badIdx), "force.badidx")]
				w.fault("lifecycle.force_out_of_range")
			}
			cw.do(n, "ForceDisqualify", idx, nil, func() error { return n.st.ForceDisqualify(idx) })
		case 5: // unauthenticated origin
			idx := badIdx[c.Choose(len(badIdx), "badorig.idx")]
			data := cw.payload(c, raw)
			w.fault("lifecycle.origin_out_of_range")
			if c.Bool(1, 2, "badorig.chan") {
				cw.do(n, "HandleBroadcastMsg", idx, data, func() error { return n.st.HandleBroadcastMsg(idx, data) })
			} else {
				cw.do(n, "HandlePrivateMsg", idx, data, func() error { return n.st.HandlePrivateMsg(idx, data) })
			}
		case 6: // raw payload from an in-range origin
			idx := c.Choose(w.n, "raw.orig")
			if w.proto != JF && c.Bool(1, 2, "raw.fromdealer") {
				idx = w.dealer
			}
			data := cw.payload(c, true)
			w.fault("raw.payload")
			if c.Bool(1, 2, "raw.chan") {
				cw.do(n, "HandleBroadcastMsg", idx, data, func() error { return n.st.HandleBroadcastMsg(idx, data) })
			} else {
				cw.do(n, "HandlePrivateMsg", idx, data, func() error { return n.st.HandlePrivateMsg(idx, data) })
			}
		case 7: // Start with a too short seed
			if n.m.ph == ended || n.m.ph == unknown {
				continue
			}
			l := []int{0, 1, 16, 31}[c.Choose(4, "shortseed.len")]
			w.fault("lifecycle.start_short_seed")
			if n.m.ph == idle {
				n.round = 1
			}
			cw.do(n, "StartShortSeed", 0, nil, func() error { return n.st.Start(make([]byte, l)) })
		}
	}
	return cw
}

// payload builds an untrusted payload: a mutated copy of a message some instance really
// emitted, or a string from the length/tag grammar.
func (cw *chaosWorld) payload(c *choice.Src, raw bool) []byte {
	w := cw.World
	rnd := c.Sub("payload.rnd")
	if !raw {
		if len(w.history) > 0 {
			return w.history[c.Choose(len(w.history), "payload.hist")]
		}
		return []byte{tagVec}
	}
	exact := []int{33, 1 + 96*(w.t+1), 2, 34}
	switch c.Choose(6, "payload.kind") {
	case 4, 5:
		// structured: a well-formed protocol message of some kind with chosen fields (what a
		// Byzantine participant that knows the format sends), possibly with a wrong point count
		switch c.Choose(4, "payload.struct") {
		case 0:
			return append([]byte{tagAnswer, byte(c.Choose(w.n, "payload.answer.for"))}, curve.ScalarRandom(rnd)...)
		case 1:
			return []byte{tagComplaint, byte(c.Choose(w.n, "payload.complaint.against"))}
		case 2:
			return append([]byte{tagShare}, curve.ScalarRandom(rnd)...)
		default:
			var vec []byte
			for _, h := range w.history {
				if len(h) == 1+96*(w.t+1) && h[0] == tagVec {
					vec = append([]byte(nil), h[1:]...)
				}
			}
			if vec == nil {
				vec = make([]byte, 96*(w.t+1))
				for i := 0; i <= w.t; i++ {
					vec[96*i] = 0xC0 // t+1 points at infinity: decodable
				}
			}
			switch c.Choose(4, "payload.vec.shape") {
			case 1:
				vec = vec[:len(vec)-96]
			case 2:
				vec = append(vec, vec[:96]...)
			case 3:
				copy(vec[96*c.Choose(w.t+1, "payload.vec.pos"):], curve.G2OffCurve(rnd))
			}
			return append([]byte{tagVec}, vec...)
		}
	case 0:
		if len(w.history) == 0 {
			return []byte{}
		}
		d := append([]byte(nil), w.history[c.Choose(len(w.history), "payload.hist")]...)
		switch c.Choose(7, "payload.mut") {
		case 0:
		case 1:
			if len(d) > 0 {
				d = d[:len(d)-1]
			}
		case 2:
			d = append(d, 0)
		case 3:
			if len(d) > 0 {
				d[0] = byte(c.Choose(256, "payload.tag"))
			}
		case 4:
			if len(d) > 1 {
				d[1+c.Choose(len(d)-1, "payload.pos")] ^= byte(1 << c.Choose(8, "payload.bit"))
			}
		case 5:
			if len(d) >= 97 {
				copy(d[1:], curve.G2NonSubgroup(rnd))
			}
		case 6:
			if len(d) >= 97 {
				copy(d[1:], curve.G2XTooLarge(rnd))
			}
		}
		return d
	case 1:
		l := []int{0, 1, 2}[c.Choose(3, "payload.len")]
		d := rnd.Bytes(l)
		if l > 0 {
			d[0] = byte(c.Choose(5, "payload.tag"))
		}
		return d
	case 2:
		e := exact[c.Choose(4, "payload.exact")] + c.Choose(3, "payload.delta") - 1
		d := rnd.Bytes(e)
		if c.Bool(1, 2, "payload.zeros") {
			d = make([]byte, e)
		}
		if e > 0 {
			d[0] = byte(c.Choose(5, "payload.tag"))
		}
		if e > 1 && c.Bool(1, 2, "payload.idx") {
			d[1] = byte(c.Choose(w.n+1, "payload.idxv"))
		}
		return d
	default:
		d := rnd.Bytes(10000)
		d[0] = byte(c.Choose(5, "payload.tag"))
		return d
	}
}

// boundaryConfig: one instance built with a group size, threshold and indices at and beyond
// the documented limits, then driven through a short life (Start as dealer, a few handler
// calls from the highest indices, the timers, End). The constructor may refuse (that is the
// documented outcome for sizes outside [DKGMinSize, DKGMaxSize]); whatever it accepts must
// then survive: only the no-panic oracle of C09 applies here.
func boundaryConfig(cw *chaosWorld) {
	w := cw.World
	c := w.c
	sizes := []int{254, 255, 256, 253, 257, 2, 1, 0, -1, 1 << 16}
	size := sizes[c.Weighted([]int{4, 4, 2, 1, 1, 1, 1, 1, 1, 1}, "bc.size")]
	ths := []int{1, size - 1, (size - 1) / 2, size, 0, size - 2}
	w.n = size
	w.t = ths[c.Weighted([]int{3, 3, 3, 1, 1, 1}, "bc.t")]
	idxs := []int{0, size - 1, size, -1, size / 2}
	me := idxs[c.Weighted([]int{3, 3, 1, 1, 2}, "bc.me")]
	w.dealer = me
	if c.Bool(1, 3, "bc.otherdealer") {
		w.dealer = idxs[c.Choose(len(idxs), "bc.dealer")]
	}
	w.byz = map[int]*Byz{}
	w.out.Params["proto"], w.out.Params["n"], w.out.Params["t"], w.out.Params["dealer"] = protoName[w.proto], w.n, w.t, w.dealer
	w.out.Params["boundary_config"] = true
	w.fault("config.boundary_size_threshold_index")
	w.fp = append(w.fp, fmt.Sprint("bc", w.proto, size, w.t, me, w.dealer))
	n := &Node{idx: me, w: w, disq: map[int]bool{}, forced: map[int]bool{}}
	var cerr error
	// the instance talks to a processor that swallows everything: nobody else exists in this world
	proc := &capture{shares: map[int][]byte{}}
	if _, p := w.call(n, "constructor", func() error {
		switch w.proto {
		case FVSS:
			n.st, cerr = crypto.NewFeldmanVSS(w.n, w.t, n.idx, proc, w.dealer)
		case QUAL:
			n.st, cerr = crypto.NewFeldmanVSSQual(w.n, w.t, n.idx, proc, w.dealer)
		default:
			n.st, cerr = crypto.NewJointFeldman(w.n, w.t, n.idx, proc)
		}
		return cerr
	}); p {
		return
	}
	w.ev("boundary config %s size=%d t=%d me=%d dealer=%d: constructor -> %s", protoName[w.proto], size, w.t, me, w.dealer, errClass(cerr))
	if cerr != nil || n.st == nil {
		w.out.Probes["boundary_config_refused"]++
		return
	}
	w.out.Probes["boundary_config_accepted"]++
	seed := c.Sub("bc.seed").Bytes(32)
	step := func(what string, f func() error) bool {
		err, p := w.call(n, what, f)
		w.ev("  %s -> %s", what, errClass(err))
		w.out.SimTime["api_calls"]++
		// the lifecycle calls of this short life are all legal (C10): Start on a fresh instance,
		// the two timeouts, End after both
		got := errClass(err)
		legal := map[string]string{"Start": "nil", "NextTimeout": "nil", "End": "nil|failure"}
		if want, ok := legal[what]; ok && !p && got != "nil" && !(want == "nil|failure" && got == "failure") {
			w.viol("C10", "model.errclass", fmt.Sprintf("statemachine:%s:%s:boundary-config:got-%s-want-%s", protoName[w.proto], what, got, want),
				"%s on an instance of size %d (threshold %d, index %d) returned %v although the documented state machine accepts it", what, w.n, w.t, n.idx, err)
		}
		return !p
	}
	if !step("Start", func() error { return n.st.Start(seed) }) {
		return
	}
	w.pending = nil // what the instance sent is not delivered to anybody
	origs := []int{size - 1, size - 2, 0, size, 255, 254, 128, 127}
	for i := 0; i < 6; i++ {
		orig := origs[c.Choose(len(origs), "bc.orig")]
		var data []byte
		switch c.Choose(4, "bc.msg") {
		case 0:
			data = append([]byte{tagShare}, curve.ScalarRandom(c.Sub("bc.sc"))...)
		case 1:
			data = []byte{tagComplaint, byte(c.Choose(256, "bc.complainee"))}
		case 2:
			data = append([]byte{tagAnswer, byte(c.Choose(256, "bc.complainer"))}, curve.ScalarRandom(c.Sub("bc.sc2"))...)
		default:
			data = []byte{tagVec}
		}
		if c.Bool(1, 2, "bc.private") {
			if !step(fmt.Sprintf("HandlePrivateMsg(orig=%d, tag %d)", orig, data[0]), func() error { return n.st.HandlePrivateMsg(orig, data) }) {
				return
			}
		} else if !step(fmt.Sprintf("HandleBroadcastMsg(orig=%d, tag %d)", orig, data[0]), func() error { return n.st.HandleBroadcastMsg(orig, data) }) {
			return
		}
		if i == 2 {
			if !step("NextTimeout", n.st.NextTimeout) {
				return
			}
		}
	}
	fd := origs[c.Choose(len(origs), "bc.force")]
	if !step(fmt.Sprintf("ForceDisqualify(%d)", fd), func() error { return n.st.ForceDisqualify(fd) }) {
		return
	}
	if !step("NextTimeout", n.st.NextTimeout) {
		return
	}
	step("End", func() error { _, _, _, err := n.st.End(); return err })
}
