package dkgsim

import (
	"fmt"

	"verifsim/choice"
	"verifsim/curve"
)

// emit is called by the DKGProcessor of every node for every message its real instance
// produces. Honest output goes to the network unchanged, tagged with the sender's round;
// Byzantine output passes through the mutator.
func (w *World) emit(sender *Node, to int, bcast bool, data []byte) {
	if sender.muted {
		return
	}
	m := &Msg{From: sender.idx, To: to, Bcast: bcast, Data: data, Round: sender.round, Label: "honest"}
	w.labelReal(m)
	if !sender.byz {
		w.enqueue(m)
		return
	}
	b := w.byz[sender.idx]
	// remember what the real instance produced: the injector reuses it
	if !bcast && len(data) == 33 && data[0] == tagShare {
		b.realShares[to] = append([]byte(nil), data[1:]...)
	}
	if bcast && len(data) > 1 && data[0] == tagVec {
		b.realVec = append([]byte(nil), data[1:]...)
	}
	if b.crashed {
		w.fault("byz.crashstop.dropped")
		w.ev("byz %d crashed: output dropped (%s)", b.idx, m.Kind)
		return
	}
	m.Label = "byz:pass"
	if b.resendFor >= 0 && m.Kind == "share" && to == b.resendFor && !m.Inject && sender.round <= 1 {
		// resend template: the victim's share is replaced by a malformed private message; a
		// CORRECT answer for the victim (the dealer reveals the true share in public, before or
		// after the victim complains) and a second, well-formed but WRONG private share follow as
		// separate actions of round 1. The first private message counts, the public answer repairs
		// the victim's share, the late private share must be ignored.
		real := append([]byte(nil), data[1:]...)
		m.Data = []byte{tagShare, 1, 2}
		m.Well, m.Shape, m.Poly, m.Label = false, false, "X", "byz:resend-template:malformed-first-share"
		b.faulted = append(b.faulted, to)
		ans := &Msg{From: b.idx, To: -1, Bcast: true, Data: append([]byte{tagAnswer, byte(to)}, real...), Kind: "answer",
			Label: "byz:resend-template:correct-answer", Inject: true, Well: true, Shape: true, Poly: "A", Idx: to}
		wrong, poly, idx, how := w.otherScalar(b, to, tagShare, w.c.Sub("resend.rnd"), []byte{tagShare})
		sh := &Msg{From: b.idx, To: to, Bcast: false, Data: wrong, Kind: "share",
			Label: "byz:resend-template:second-share:" + how, Inject: true, Well: true, Shape: true, Poly: poly, Idx: idx}
		if w.c.Bool(1, 2, "resend.order") {
			b.planned = append(b.planned, ans, sh)
		} else {
			b.planned = append(b.planned, sh, ans)
		}
		w.script[1] = append(w.script[1], b.idx, b.idx)
		w.fault("byz.resend_template")
		w.sendByz(b, m)
		return
	}
	if b.truncVec != nil && (m.Kind == "share" || m.Kind == "vec") && !m.Inject {
		// truncated-vector attack: first k points of a lower-degree dealing, then an undecodable
		// point, then padding; every share matches the truncated polynomial
		if m.Kind == "share" {
			if s, ok := b.truncShares[to]; ok {
				m.Data = append([]byte{tagShare}, s...)
				m.Poly, m.Idx, m.Label = "T", to, "byz:truncated-attack:share"
			}
		} else {
			pl := append([]byte(nil), b.truncVec...)
			bad := curve.G2OffCurve(w.c.Sub("trunc.rnd"))
			pad := m.Data[1:97]
			switch w.c.Choose(3, "trunc.badkind") {
			case 1:
				bad = append([]byte(nil), m.Data[1:97]...)
				bad[0] &^= 0x80 // compression bit cleared
			case 2:
				// a non-canonical encoding of infinity (a non-zero byte in its body), the rest of the
				// vector canonical infinities: whoever takes the bad entry for the identity sees exactly
				// the lower-degree polynomial that all the shares lie on
				bad = make([]byte, 96)
				bad[0] = 0xC0
				bad[1+w.c.Choose(95, "trunc.infbyte")] = byte(1 + w.c.Choose(255, "trunc.infval"))
				inf := make([]byte, 96)
				inf[0] = 0xC0
				pad = inf
			}
			pl = append(pl, bad...)
			for len(pl) < 96*(w.t+1) {
				pl = append(pl, pad...)
			}
			m.Data = append([]byte{tagVec}, pl[:96*(w.t+1)]...)
			m.Poly, m.Well, m.Shape, m.Label = "X", false, false, "byz:truncated-attack:vector"
		}
		w.fault("byz.truncated_attack." + m.Kind)
		w.sendByz(b, m)
		return
	}
	if b.torsionFermat && m.Kind == "vec" && w.t >= 12 && !m.Inject {
		p := w.c.Choose(w.t-11, "fermat.p")
		q := p + 12
		pl := append([]byte(nil), m.Data[1:]...)
		if len(pl) == 96*(w.t+1) {
			ep, e1 := curve.G2PlusMultiple(pl[96*p:96*p+96], 0, 1)
			eq, e2 := curve.G2PlusMultiple(pl[96*q:96*q+96], 0, -1)
			if e1 == nil && e2 == nil && curve.SmallPrimes[0] == 13 {
				copy(pl[96*p:], ep)
				copy(pl[96*q:], eq)
				m.Data = append([]byte{tagVec}, pl...)
				m.Poly, m.Well, m.Shape = "X", false, false
				m.Label = fmt.Sprintf("byz:fermat-torsion-pair:A%d+T,A%d-T", p, q)
				w.fault("byz.fermat_torsion_pair_vector")
				w.sendByz(b, m)
				return
			}
		}
	}
	if b.torsionFor >= 0 && m.Kind == "vec" && w.t >= 2 {
		// torsion-cancelling attack: A_p + T and A_q + cT with x^p + c x^q = 0 mod ord(T) for the
		// index x of ONE chosen participant: its public key share is unchanged, the vector is on
		// the curve but two of its points are outside G2
		which := w.c.Choose(5, "torsion.which")
		p := 1 + w.c.Choose(w.t-1, "torsion.p")
		q := p + 1 + w.c.Choose(w.t-p, "torsion.q")
		if cc, ok := curve.CancelCoeff(which, int64(b.torsionFor+1), p, q); ok {
			pl := append([]byte(nil), m.Data[1:]...)
			ep, e1 := curve.G2PlusMultiple(pl[96*p:96*p+96], which, 1)
			eq, e2 := curve.G2PlusMultiple(pl[96*q:96*q+96], which, cc)
			if e1 == nil && e2 == nil {
				copy(pl[96*p:], ep)
				copy(pl[96*q:], eq)
				m.Data = append([]byte{tagVec}, pl...)
				m.Poly, m.Well, m.Shape = "X", false, false
				m.Label = fmt.Sprintf("byz:torsion-cancelling-vector:for%d:A%d+T,A%d+%dT", b.torsionFor, p, q, cc)
				w.fault("byz.torsion_cancelling_vector")
				w.sendByz(b, m)
				return
			}
		}
	}
	action := 0
	if w.faultBudget > 0 && w.c.Bool(w.pFault, 16, "byz.fault?") {
		action = 1 + w.c.Choose(6, "byz.action")
		w.faultBudget--
	}
	if a, ok := b.bias[m.Kind]; ok && action == 0 && w.c.Bool(2, 3, "byz.bias?") {
		action = a
	}
	if action != 0 && m.Kind == "share" {
		b.faulted = append(b.faulted, to)
	}
	switch action {
	case 6: // hold back: sent later in the same round, after whatever the participant sends in between
		m.Label = "byz:held-back"
		w.fault("byz.heldback." + m.Kind)
		b.held = append(b.held, m)
		r := w.maxRound
		if sender.round > r {
			r = sender.round // the sender's own timer just fired: it is the first node of the new round
		}
		if r < 1 {
			r = 1
		}
		if r <= 3 {
			w.script[r] = append(w.script[r], b.idx)
		}
		w.ev("byz %d holds back %s to %d", b.idx, m.Kind, to)
	case 0:
		w.sendByz(b, m)
	case 1: // omit
		w.fault("byz.omit." + m.Kind)
		w.ev("byz %d omits %s to %d", b.idx, m.Kind, to)
	case 2: // late
		d := 1 + w.c.Choose(2, "byz.late.by")
		m.Round += d
		m.Label = fmt.Sprintf("byz:late+%d", d)
		w.fault("byz.late." + m.Kind)
		w.sendByz(b, m)
	case 3: // duplicate
		m.Label = "byz:dup"
		w.fault("byz.duplicate." + m.Kind)
		w.sendByz(b, m)
		cp := *m
		cp.Data = append([]byte(nil), m.Data...)
		w.sendByz(b, &cp)
	case 4, 5:
		if action == 4 { // malformed
			w.corrupt(b, m)
			w.fault("byz.malformed." + m.Kind)
		} else { // well-formed but inconsistent
			w.replace(b, m)
			w.fault("byz.inconsistent." + m.Kind)
		}
		if w.c.Bool(1, 5, "byz.alsolate") {
			// composite behaviour: the bad message moreover lands one or two rounds later
			d := 1 + w.c.Choose(2, "byz.late.by")
			m.Round += d
			m.Label += fmt.Sprintf("+late%d", d)
			w.fault("byz.late." + m.Kind)
		}
		if w.c.Bool(1, 3, "byz.alsohold") {
			// composite behaviour: the bad message is moreover sent later in the round (e.g. a
			// malformed vector broadcast after an unsolicited answer)
			w.fault("byz.heldback." + m.Kind)
			b.held = append(b.held, m)
			r := w.maxRound
			if sender.round > r {
				r = sender.round
			}
			if r < 1 {
				r = 1
			}
			if r <= 3 {
				w.script[r] = append(w.script[r], b.idx)
			}
			w.ev("byz %d holds back the %s %s to %d", b.idx, m.Label, m.Kind, to)
			break
		}
		w.sendByz(b, m)
	}
}

// sendByz applies the FIFO floor of Byzantine broadcasts and enqueues.
func (w *World) sendByz(b *Byz, m *Msg) {
	if m.Bcast {
		if m.Round < b.floor {
			m.Round = b.floor
		}
		b.floor = m.Round
	}
	if m.Round > 3 && w.proto != FVSS {
		w.ev("byz %d: %s never arrives (later than End)", b.idx, m.Kind)
		w.fault("byz.never_arrives")
		return
	}
	w.enqueue(m)
}

// labelReal sets the semantic labels of a message produced by a real instance.
func (w *World) labelReal(m *Msg) {
	m.Kind = classify(m.Bcast, m.Data)
	m.Well = true
	m.Shape = true
	switch m.Kind {
	case "share":
		m.Poly, m.Idx = "A", m.To
	case "vec":
		m.Poly = "A"
	case "complaint":
		if len(m.Data) == 2 {
			m.Idx = int(m.Data[1])
		}
	case "answer":
		if len(m.Data) == 34 {
			m.Poly, m.Idx = "A", int(m.Data[1])
		}
	}
}

func pick(c *choice.Src, n int, label string) int { return c.Choose(n, label) }

// corrupt makes m malformed in one of the ways the code documents.
func (w *World) corrupt(b *Byz, m *Msg) {
	c := w.c
	rnd := c.Sub("byz.corrupt.rnd")
	m.Well = false
	m.Shape = false
	m.Poly = "X"
	how := ""
	switch m.Kind {
	case "share":
		switch pick(c, 9, "corrupt.share") {
		case 0:
			m.Data, how = []byte{}, "empty"
		case 1:
			m.Data, how = []byte{tagShare}, "tagonly"
		case 2:
			m.Data = append([]byte{byte(1 + c.Choose(255, "tag"))}, m.Data[1:]...)
			how = "wrongtag"
		case 3:
			m.Data, how = m.Data[:len(m.Data)-1], "short1"
		case 4:
			m.Data, how = append(m.Data, 0x01), "long1"
		case 5:
			m.Data, how = append([]byte{tagShare}, make([]byte, 32)...), "zero"
			m.Shape = true
		case 6:
			m.Data, how = append([]byte{tagShare}, curve.ScalarTooLarge(rnd)...), "geR"
			m.Shape = true
		case 7:
			m.Data, how = append([]byte{tagShare}, rnd.Bytes(10000)...), "10k"
		case 8:
			m.Data, how = []byte{tagShare, 0x01, 0x02}, "2bytes"
		}
	case "vec":
		pl := append([]byte(nil), m.Data[1:]...)
		np := len(pl) / 96
		pos := 0
		if np > 0 {
			pos = c.Choose(np, "corrupt.vec.pos")
		}
		switch pick(c, 14, "corrupt.vec") {
		case 13:
			// a non-canonical encoding of the point at infinity: the infinity header followed by a
			// non-zero byte somewhere in the body (first or second half)
			if np > 0 {
				inf := make([]byte, 96)
				inf[0] = 0xC0
				inf[1+c.Choose(95, "corrupt.vec.infbyte")] = byte(1 + c.Choose(255, "corrupt.vec.infval"))
				copy(pl[96*pos:], inf)
				how = "infinity-noncanonical"
				break
			}
			pl, how = nil, "tagonly"
		case 12:
			// the point at infinity at some position, an invalid point right after it
			if np >= 3 {
				q := 1 + c.Choose(np-2, "corrupt.vec.infpos")
				inf := make([]byte, 96)
				inf[0] = 0xC0
				copy(pl[96*q:], inf)
				switch c.Choose(3, "corrupt.vec.afterinf") {
				case 0:
					copy(pl[96*(q+1):], curve.G2NonSubgroup(rnd))
				case 1:
					copy(pl[96*(q+1):], curve.G2XTooLarge(rnd))
				default:
					pl[96*(q+1)] &^= 0x80
				}
				how = "infinity-then-invalid"
				break
			}
			copy(pl[96*pos:], curve.G2OffCurve(rnd))
			how = "offcurve"
		case 11:
			// a genuine G2 point plus a point of small prime order: on the curve, outside G2
			if np > 0 {
				if enc, err := curve.G2PlusTorsion(pl[96*pos:96*pos+96], c.Choose(5, "corrupt.vec.torsion")); err == nil {
					copy(pl[96*pos:], enc)
					how = "G2+smallorder"
					break
				}
			}
			copy(pl[96*pos:], curve.G2NonSubgroup(rnd))
			how = "notinG2"
		case 0:
			pl, how = nil, "tagonly"
		case 1:
			pl, how = pl[:len(pl)-1], "short1"
		case 2:
			pl, how = append(pl, 0x80), "long1"
		case 3:
			pl, how = pl[:len(pl)-96], "onepointless"
		case 4:
			pl, how = append(pl, pl[:96]...), "onepointmore"
		case 5:
			pl[96*pos] &^= 0x80
			how = "nocompressbit"
		case 6:
			pl[96*pos] |= 0x40
			how = "infbit+x"
		case 7:
			copy(pl[96*pos:], curve.G2XTooLarge(rnd))
			how = "x>=p"
		case 8:
			copy(pl[96*pos:], curve.G2OffCurve(rnd))
			how = "offcurve"
		case 9:
			copy(pl[96*pos:], curve.G2NonSubgroup(rnd))
			how = "notinG2"
		case 10:
			pl, how = rnd.Bytes(len(pl)), "random"
			pl[0] |= 0x80
		}
		m.Data = append([]byte{tagVec}, pl...)
	case "complaint":
		switch pick(c, 4, "corrupt.complaint") {
		case 0:
			m.Data, how = []byte{tagComplaint}, "tagonly"
		case 1:
			m.Data, how = append(m.Data, 0x00), "long1"
		case 2:
			m.Data, how = []byte{tagComplaint, byte(w.n)}, "complainee=n"
		case 3:
			m.Data, how = []byte{tagComplaint, 255}, "complainee=255"
		}
	case "answer":
		switch pick(c, 7, "corrupt.answer") {
		case 0:
			m.Data, how = []byte{tagAnswer}, "tagonly"
		case 1:
			m.Data, how = m.Data[:len(m.Data)-1], "short1"
		case 2:
			m.Data, how = append(m.Data, 0x07), "long1"
		case 3:
			m.Data[1], how = byte(w.n), "complainer=n"
		case 4:
			m.Data[1], how = 255, "complainer=255"
		case 5:
			copy(m.Data[2:], make([]byte, 32))
			how = "zero"
			m.Shape = true
		case 6:
			copy(m.Data[2:], curve.ScalarTooLarge(rnd))
			how = "geR"
			m.Shape = true
		}
	default:
		m.Data, how = []byte{}, "empty"
	}
	m.Label = "byz:malformed:" + how
	if m.Bcast {
		m.Kind = classify(true, m.Data)
		if m.Kind == "empty" || m.Kind == "raw" {
			m.Kind = "raw"
		}
	}
}

// replace substitutes a well-formed but inconsistent value.
func (w *World) replace(b *Byz, m *Msg) {
	c := w.c
	rnd := c.Sub("byz.replace.rnd")
	how := ""
	switch m.Kind {
	case "share":
		m.Data, m.Poly, m.Idx, how = w.otherScalar(b, m.To, tagShare, rnd, nil)
	case "vec":
		switch pick(c, 3, "replace.vec") {
		case 0:
			if b.shadowVec != nil {
				m.Data, m.Poly, how = append([]byte{tagVec}, b.shadowVec...), "B", "shadowvector"
			} else {
				how = "none"
			}
		case 1:
			// A_0 replaced by the identity: still t+1 valid G2 points, another polynomial
			pl := append([]byte(nil), m.Data[1:]...)
			copy(pl[:96], make([]byte, 96))
			pl[0] = 0xC0
			m.Data, m.Poly, how = append([]byte{tagVec}, pl...), "X", "A0=identity"
		case 2:
			// last coefficient replaced by the first: degree/values change
			pl := append([]byte(nil), m.Data[1:]...)
			copy(pl[len(pl)-96:], pl[:96])
			m.Data, m.Poly, how = append([]byte{tagVec}, pl...), "X", "At=A0"
		}
	case "complaint":
		other := c.Choose(w.n, "replace.complainee")
		m.Data, m.Idx, how = []byte{tagComplaint, byte(other)}, other, fmt.Sprintf("complainee=%d", other)
	case "answer":
		j := int(m.Data[1])
		hdr := []byte{tagAnswer, byte(j)}
		m.Data, m.Poly, m.Idx, how = w.otherScalar(b, j, tagAnswer, rnd, hdr)
	default:
		how = "none"
	}
	m.Label = "byz:inconsistent:" + how
}

// otherScalar returns a well-formed message carrying a scalar that is NOT the real share of
// participant j: the shadow share, the real share of somebody else, a random scalar or the
// real one plus one. Returns data, poly label, index label, description.
func (w *World) otherScalar(b *Byz, j int, tag byte, rnd *choice.Src, hdr []byte) ([]byte, string, int, string) {
	if hdr == nil {
		hdr = []byte{tag}
	}
	switch w.c.Choose(5, "replace.scalar") {
	case 4:
		if s, ok := b.realShares[j]; ok {
			// r - P(j): the opposite point has the same x coordinate
			return append(append([]byte(nil), hdr...), curve.ScalarNeg(s)...), "X", j, "negatedshare"
		}
	case 0:
		if s, ok := b.shadowShares[j]; ok {
			return append(append([]byte(nil), hdr...), s...), "B", j, "shadowshare"
		}
	case 1:
		k := w.c.Choose(w.n, "replace.otheridx")
		if s, ok := b.realShares[k]; ok && k != j {
			return append(append([]byte(nil), hdr...), s...), "A", k, fmt.Sprintf("shareof%d", k)
		}
	case 2:
		if s, ok := b.realShares[j]; ok {
			return append(append([]byte(nil), hdr...), curve.ScalarAddOne(s)...), "X", j, "share+1"
		}
	}
	return append(append([]byte(nil), hdr...), curve.ScalarRandom(rnd)...), "X", j, "randomscalar"
}

// inject performs one unsolicited Byzantine action of participant b, landing in `round`.
func (w *World) inject(b *Byz, round int) {
	c := w.c
	if len(b.planned) > 0 && !b.crashed {
		// next step of a template (see the resend template in emit)
		m := b.planned[0]
		b.planned = b.planned[1:]
		m.Round = round
		w.ev("byz %d: template step %s", b.idx, m.Label)
		w.sendByz(b, m)
		return
	}
	if len(b.held) > 0 {
		// release a held-back message now: it takes its place in the sender's broadcast order here
		m := b.held[0]
		b.held = b.held[1:]
		if m.Round < round {
			m.Round = round
		}
		w.ev("byz %d releases held-back %s", b.idx, m.Kind)
		if !b.crashed {
			w.sendByz(b, m)
		}
		return
	}
	rnd := c.Sub("inject.rnd")
	w.fault("byz.unsolicited")
	if b.crashed {
		return
	}
	mk := func(bcast bool, to int, data []byte, kind, label string) *Msg {
		m := &Msg{From: b.idx, To: to, Bcast: bcast, Data: data, Round: round, Label: "byz:unsolicited:" + label,
			Inject: true, Well: true, Shape: true}
		m.Kind = kind
		return m
	}
	otherThan := func(x int, label string) int {
		j := c.Choose(w.n-1, label)
		if j >= x {
			j++
		}
		return j
	}
	switch c.Choose(8, "inject.what") {
	case 7: // a burst of answers nobody asked for, for t, t+1 or t+2 distinct participants (the "> t entries" boundary)
		k := w.t + c.Choose(3, "inject.burst.k")
		if k > w.n-1 {
			k = w.n - 1
		}
		start := c.Choose(w.n, "inject.burst.start")
		sent := 0
		for d := 0; d < w.n && sent < k; d++ {
			j := (start + d) % w.n
			if j == b.idx {
				continue
			}
			data, poly, how := []byte(nil), "X", "randomscalar"
			if s, ok := b.realShares[j]; ok && !c.Bool(1, 4, "inject.burst.wrong") {
				data, poly, how = append([]byte{tagAnswer, byte(j)}, s...), "A", "realshare"
			} else {
				data = append([]byte{tagAnswer, byte(j)}, curve.ScalarRandom(rnd)...)
			}
			m := mk(true, -1, data, "answer", "answerburst:"+how)
			m.Poly, m.Idx = poly, j
			w.sendByz(b, m)
			sent++
		}
		w.fault("byz.answer_burst")
	case 0: // answer nobody asked for (or asked for), correct or not
		j := otherThan(b.idx, "inject.answer.for")
		if len(b.faulted) > 0 && c.Bool(1, 2, "inject.answer.prefer") {
			j = b.faulted[c.Choose(len(b.faulted), "inject.answer.faulted")]
		}
		var data []byte
		poly, idx, how := "X", j, ""
		switch c.Choose(4, "inject.answer.kind") {
		case 0:
			if s, ok := b.realShares[j]; ok {
				data, poly, how = append([]byte{tagAnswer, byte(j)}, s...), "A", "realshare"
			}
		case 1:
			if s, ok := b.shadowShares[j]; ok {
				data, poly, how = append([]byte{tagAnswer, byte(j)}, s...), "B", "shadowshare"
			}
		case 2:
			data, how = append([]byte{tagAnswer, byte(j)}, curve.ScalarRandom(rnd)...), "randomscalar"
		case 3:
			m := mk(true, -1, append([]byte{tagAnswer, byte(j)}, make([]byte, 32)...), "answer", "")
			w.corrupt(b, m)
			m.Label = "byz:unsolicited:" + m.Label[4:]
			w.sendByz(b, m)
			return
		}
		if data == nil {
			data, how = append([]byte{tagAnswer, byte(j)}, curve.ScalarRandom(rnd)...), "randomscalar"
		}
		m := mk(true, -1, data, "answer", "answer:"+how)
		m.Poly, m.Idx = poly, idx
		w.sendByz(b, m)
	case 1: // complaint against some dealer
		d := c.Choose(w.n, "inject.complaint.against")
		if w.proto != JF && c.Bool(3, 4, "inject.complaint.dealer") {
			d = w.dealer
		}
		m := mk(true, -1, []byte{tagComplaint, byte(d)}, "complaint", fmt.Sprintf("complaint:against%d", d))
		m.Idx = d
		w.sendByz(b, m)
	case 2: // another vector
		var m *Msg
		switch c.Choose(3, "inject.vec.kind") {
		case 0:
			if b.realVec != nil {
				m = mk(true, -1, append([]byte{tagVec}, b.realVec...), "vec", "vector:real-again")
				m.Poly = "A"
			}
		case 1:
			if b.shadowVec != nil {
				m = mk(true, -1, append([]byte{tagVec}, b.shadowVec...), "vec", "vector:shadow")
				m.Poly = "B"
			}
		}
		if m == nil {
			src := b.shadowVec
			if src == nil {
				src = make([]byte, 96*(w.t+1))
			}
			m = mk(true, -1, append([]byte{tagVec}, src...), "vec", "")
			w.corrupt(b, m)
			m.Label = "byz:unsolicited:" + m.Label[4:]
		}
		w.sendByz(b, m)
	case 3: // another private share
		j := otherThan(b.idx, "inject.share.to")
		if len(b.faulted) > 0 && c.Bool(1, 2, "inject.share.prefer") {
			j = b.faulted[c.Choose(len(b.faulted), "inject.share.faulted")]
		}
		var m *Msg
		switch c.Choose(4, "inject.share.kind") {
		case 0:
			if s, ok := b.realShares[j]; ok {
				m = mk(false, j, append([]byte{tagShare}, s...), "share", "share:real-again")
				m.Poly, m.Idx = "A", j
			}
		case 1:
			if s, ok := b.shadowShares[j]; ok {
				m = mk(false, j, append([]byte{tagShare}, s...), "share", "share:shadow")
				m.Poly, m.Idx = "B", j
			}
		case 2:
			m = mk(false, j, append([]byte{tagShare}, curve.ScalarRandom(rnd)...), "share", "share:random")
			m.Poly, m.Idx = "X", j
		}
		if m == nil {
			m = mk(false, j, append([]byte{tagShare}, make([]byte, 32)...), "share", "")
			w.corrupt(b, m)
			m.Label = "byz:unsolicited:" + m.Label[4:]
		}
		w.sendByz(b, m)
	case 4: // raw broadcast
		var data []byte
		how := ""
		switch c.Choose(4, "inject.rawb.kind") {
		case 0:
			data, how = []byte{}, "empty"
		case 1:
			data, how = []byte{byte(4 + c.Choose(252, "inject.rawb.tag"))}, "unknowntag"
		case 2:
			data, how = append([]byte{byte(c.Choose(256, "inject.rawb.tag"))}, rnd.Bytes(c.Choose(200, "inject.rawb.len"))...), "randombytes"
		case 3:
			data, how = []byte{tagShare, 1, 2, 3}, "sharetag-on-broadcast"
		}
		m := mk(true, -1, data, "raw", "rawbroadcast:"+how)
		m.Well, m.Shape = false, false
		k := classify(true, data)
		if k == "vec" || k == "complaint" || k == "answer" {
			// random bytes that happen to carry a protocol tag: treat as malformed message of that kind
			m.Kind = k
			if k == "complaint" && len(data) == 2 && int(data[1]) < w.n {
				m.Well, m.Shape, m.Idx = true, true, int(data[1])
			}
			if k == "answer" && len(data) == 34 && int(data[1]) < w.n {
				m.Shape, m.Poly = true, "X"
			}
		}
		w.sendByz(b, m)
	case 5: // raw private
		j := otherThan(b.idx, "inject.rawp.to")
		var data []byte
		how := ""
		switch c.Choose(3, "inject.rawp.kind") {
		case 0:
			data, how = []byte{}, "empty"
		case 1:
			data, how = append([]byte{byte(c.Choose(256, "inject.rawp.tag"))}, rnd.Bytes(c.Choose(70, "inject.rawp.len"))...), "randombytes"
		case 2:
			data, how = []byte{tagVec, 0x80}, "vectag-on-private"
		}
		m := mk(false, j, data, "share", "rawprivate:"+how)
		m.Well, m.Shape, m.Poly = false, false, "X"
		w.sendByz(b, m)
	case 6: // crash-stop from now on
		b.crashed = true
		w.fault("byz.crashstop")
		w.ev("byz %d crash-stops", b.idx)
	}
}
