package dkgsim

import (
	"bytes"
	"fmt"
	"sort"

	crypto "github.com/onflow/crypto"

	"verifsim/choice"
	"verifsim/engine"
)

type Engine struct{}

func (Engine) Name() string { return "dkgsim" }

func (Engine) Run(c *choice.Src, o engine.Opt) (out engine.Out) {
	out = engine.Out{Params: map[string]any{}, Faults: map[string]int{}, Probes: map[string]int{}, SimTime: map[string]int{}}
	if o.Mode == "chaos" {
		runChaos(c, o, &out)
		return
	}
	if o.Mode == "craft" {
		runCraft(c, o, &out)
		return
	}
	w := &World{c: c, o: o, out: &out, prop: o.Property}
	defer func() {
		out.Trace = w.trace
		out.EventHash = engine.HexHash(w.evlog)
		out.Fingerprint = engine.HashStrings(w.fp...)
		out.Nontrivial = w.nonzeroSched || sumFaults(out.Faults) > 0
	}()
	w.setup()
	w.runProto()
	return
}

func sumFaults(m map[string]int) int {
	s := 0
	for _, v := range m {
		s += v
	}
	return s
}

var nWeights = []int{0, 0, 2, 6, 8, 8, 5, 3, 2, 1, 1, 1, 1} // index = n

// setup draws the configuration of the run.
func (w *World) setup() {
	c := w.c
	pw := []int{0, 3, 4}
	if w.prop == "C08" {
		pw = []int{3, 3, 3}
	}
	if w.o.Mode == "fvss" {
		pw = []int{1, 0, 0}
	}
	w.proto = c.Weighted(pw, "proto")
	nmax := 8
	if w.o.Tier == "thorough" {
		nmax = 12
	}
	w.n = c.Weighted(nWeights[:nmax+1], "n")
	if w.n < 2 {
		w.n = 2
	}
	if w.o.Mode == "big" {
		w.n = 16 + c.Choose(17, "nbig")
		w.proto = JF
	}
	if w.o.Mode == "mid" {
		// medium groups with any threshold (t >= 8, t = n-1, ...) in all three protocols
		w.n = 13 + c.Choose(12, "nmid")
	}
	// "Fermat" torsion pair (adv mode, rare): A_p + T and A_{p+12} - T with T of order 13 outside
	// G2. The two components cancel in every SUM of the vector's points, and since x^12 = 1
	// (mod 13) for every x not divisible by 13, the public key shares of participants 1..12
	// are unchanged: only a per-point subgroup check sees the vector is invalid. Needs t >= 12.
	// modes "fermat" and "torsion" force the corresponding template in every run (used by the
	// cross-build transcript of C20: the verdict hinges on the per-point subgroup check)
	advLike := w.o.Mode == "adv" || w.o.Mode == "fermat" || w.o.Mode == "torsion"
	fermat := (w.o.Mode == "adv" && c.Bool(1, 20, "fermat")) || w.o.Mode == "fermat"
	if fermat {
		w.n = 14 + c.Choose(3, "fermat.n")
		w.proto = QUAL + c.Choose(2, "fermat.proto")
	}
	wide := w.o.Mode == "wide"
	if wide {
		// participant indices beyond 127 (byte arithmetic, small-exponent multiplication): one dealer, small t
		w.n = []int{128, 129, 130, 131, 160, 200, 253, 254}[c.Choose(8, "nwide")]
		w.proto = 1 - c.Choose(2, "widefvss")
	}
	switch c.Choose(4, "tkind") {
	case 0:
		w.t = (w.n - 1) / 2
	case 1:
		w.t = 1
	case 2:
		w.t = w.n - 1
	default:
		w.t = 1 + c.Choose(w.n-1, "t")
	}
	if wide {
		w.t = 1 + c.Choose(3, "twide")
	}
	if fermat {
		w.t = 12 + c.Choose(w.n-13, "fermat.t")
	}
	if w.t < 1 {
		w.t = 1
	}
	if w.t > w.n-1 {
		w.t = w.n - 1
	}
	// number of Byzantine participants: f <= t and n-f >= t+1
	fmax := w.t
	if w.n-w.t-1 < fmax {
		fmax = w.n - w.t - 1
	}
	f := 0
	if fmax > 0 {
		f = c.Weighted(append([]int{1}, ones(fmax, 4)...), "f")
		if advLike && f == 0 {
			f = 1
		}
		if (wide || fermat) && f > 1 {
			f = 1 // n^2 broadcast copies per complaint storm: keep the wide worlds cheap
		}
	}
	w.dealer = c.Choose(w.n, "dealer")
	w.nodes = make([]*Node, w.n)
	w.bseq = make([]int, w.n)
	w.byz = map[int]*Byz{}
	for i := range w.nodes {
		w.nodes[i] = &Node{idx: i, w: w, disq: map[int]bool{}, forced: map[int]bool{}}
	}
	// choose Byzantine indices anywhere; for single-dealer protocols make the dealer Byzantine in half of the runs
	left := f
	if f > 0 && w.proto != JF && !wide && (c.Bool(1, 2, "byzdealer") || advLike) {
		w.nodes[w.dealer].byz = true
		left--
	}
	for left > 0 {
		i := c.Choose(w.n, "byzidx")
		for w.nodes[i].byz || (wide && i == w.dealer) {
			i = (i + 1) % w.n
		}
		w.nodes[i].byz = true
		left--
	}
	seeds := c.Sub("seeds")
	for i, nd := range w.nodes {
		if nd.byz {
			w.byz[i] = &Byz{idx: i, realShares: map[int][]byte{}, torsionFor: -1, resendFor: -1, bias: map[string]int{}}
			if w.o.Mode == "adv" && !fermat && w.isDealer(i) && c.Bool(1, 8, "resend") {
				w.byz[i].resendFor = c.Choose(w.n, "resend.for")
			}
			if fermat {
				// the torsion pair is this participant's ONLY misbehaviour: anything else would get
				// the dealer disqualified for an unrelated reason
			} else if c.Bool(1, 2, "byz.biased") || w.o.Mode == "adv" {
				// swarm: this participant misbehaves systematically on some message kinds, so that
				// COMBINATIONS (held-back vector + malformed share + wrong answer ...) are not rare
				// weights over the actions 1 omit, 2 late, 3 duplicate, 4 malformed, 5 inconsistent, 6 hold back
				wts := map[string][]int{
					"share":     {2, 1, 1, 2, 2, 1},
					"vec":       {1, 1, 1, 1, 1, 3},
					"complaint": {1, 1, 1, 1, 1, 1},
					"answer":    {2, 1, 1, 1, 3, 1},
				}
				if w.o.Mode == "adv" {
					// adversarial-template mode: the own vector is mostly sent LAST in the round
					wts["vec"] = []int{1, 1, 0, 1, 1, 8}
					wts["share"] = []int{2, 1, 0, 3, 3, 1}
				}
				for _, kind := range []string{"share", "vec", "complaint", "answer"} {
					if c.Bool(1, 2, "byz.bias."+kind) || (w.o.Mode == "adv" && kind != "complaint") {
						w.byz[i].bias[kind] = 1 + c.Weighted(wts[kind], "byz.bias.action")
					}
				}
			}
			if fermat && w.isDealer(i) {
				w.byz[i].torsionFermat = true
			}
			if w.isDealer(i) {
				w.makeShadow(w.byz[i], seeds.Bytes(32))
				if fermat {
					// no other template
				} else if c.Bool(1, 8, "truncattack") {
					w.makeTruncated(w.byz[i], seeds.Bytes(32), 1+c.Choose(w.t, "trunc.k"))
				} else if w.t >= 2 && (c.Bool(1, 8, "torsionattack") || w.o.Mode == "torsion") {
					w.byz[i].torsionFor = c.Choose(w.n, "torsion.for")
				}
			}
		}
		if err := w.newInstance(nd); err != nil {
			w.viol(w.prop, "setup", "setup.constructor", "constructor failed for n=%d t=%d: %v", w.n, w.t, err)
			w.aborted = true
			return
		}
	}
	w.vecFirst = map[int]*vecInfo{}
	w.complainers = map[int]map[int]bool{}
	w.honestCompl = map[int]map[int]bool{}
	w.ansFirst = map[int]map[int]*ansInfo{}
	w.badAnswer = map[int]bool{}
	w.shareFirst = map[int]*Msg{}
	w.faultBudget = 0
	if f > 0 && !fermat {
		w.faultBudget = []int{1, 1, 2, 3, 6, 1000}[c.Choose(6, "faultbudget")]
		w.pFault = []int{1, 2, 4, 8}[c.Choose(4, "pfault")]
		// unsolicited actions per round
		for r := 1; r <= 3; r++ {
			for _, b := range w.byzList() {
				k := []int{0, 0, 1, 1, 2, 3}[c.Choose(6, "nscript")]
				for ; k > 0; k-- {
					w.script[r] = append(w.script[r], b)
				}
			}
		}
	}
	w.echo = c.Bool(1, 8, "echo")
	if c.Bool(1, 4, "unrelated.instance") {
		w.unrelatedAt = 2 + c.Choose(6*w.n, "unrelated.at")
	}
	w.strategy = c.Weighted([]int{4, 2, 2, 2, 2}, "strategy")
	w.starved = c.Choose(w.n, "starved")
	w.out.Params["proto"] = protoName[w.proto]
	w.out.Params["n"] = w.n
	w.out.Params["t"] = w.t
	w.out.Params["byzantine"] = w.byzList()
	if w.proto != JF {
		w.out.Params["dealer"] = w.dealer
	}
	w.out.Params["fault_budget"] = w.faultBudget
	w.out.Params["strategy"] = []string{"uniform", "oldest-first", "newest-first", "broadcast-first", "starve-one"}[w.strategy]
	w.out.Params["echo_broadcast_to_sender"] = w.echo
	w.fp = append(w.fp, fmt.Sprint(w.proto, w.n, w.t, w.byzList(), w.dealer))
	w.ev("world %s n=%d t=%d byz=%v dealer=%d", protoName[w.proto], w.n, w.t, w.byzList(), w.dealer)
	// seeds of the participants
	for _, nd := range w.nodes {
		_ = nd
	}
	w.seeds = make([][]byte, w.n)
	for i := range w.seeds {
		w.seeds[i] = seeds.Bytes(32)
	}
}

func ones(n, v int) []int {
	o := make([]int, n)
	for i := range o {
		o[i] = v
	}
	return o
}

func (w *World) byzList() []int {
	var l []int
	for i, n := range w.nodes {
		if n.byz {
			l = append(l, i)
		}
	}
	return l
}

type event struct {
	kind string // start | deliver | timer | inject
	node int
	msg  int // index into pending
}

// legalEvents lists what may happen next in the round-synchronous world.
func (w *World) legalEvents() []event {
	var ev []event
	minRound, maxRound := 5, 0
	for _, n := range w.nodes {
		if n.crashed {
			continue
		}
		if n.round < minRound {
			minRound = n.round
		}
		if n.round > maxRound {
			maxRound = n.round
		}
	}
	w.maxRound = maxRound
	for _, n := range w.nodes {
		if !n.started && !n.crashed {
			ev = append(ev, event{kind: "start", node: n.idx})
		}
	}
	// deliveries: receiver must be in the message's round; broadcasts of one sender in FIFO order
	lowestPending := 99
	firstB := map[[2]int]int{} // (from,to) -> lowest pending bseq
	for _, m := range w.pending {
		if m.Bcast {
			k := [2]int{m.From, m.To}
			if v, ok := firstB[k]; !ok || m.BSeq < v {
				firstB[k] = m.BSeq
			}
		}
	}
	for i, m := range w.pending {
		r := w.nodes[m.To]
		if r.crashed {
			continue
		}
		if m.Round < lowestPending {
			lowestPending = m.Round
		}
		if !r.started || r.ended || r.round != m.Round {
			continue
		}
		if m.Bcast && firstB[[2]int{m.From, m.To}] != m.BSeq {
			continue
		}
		ev = append(ev, event{kind: "deliver", node: m.To, msg: i})
	}
	// injections of the Byzantine script of the current (maximal) round
	w.injectRound = 0
	if minRound >= 1 {
		for r := minRound; r <= maxRound && r <= 3; r++ {
			if len(w.script[r]) > 0 {
				// normally r == maxRound; an entry left in an older round (never blocks the timers) is flushed first
				w.injectRound = r
				ev = append(ev, event{kind: "inject", node: w.script[r][0]})
				break
			}
		}
	}
	// timers: node in the minimal round, nothing of that round pending anywhere, script exhausted
	if minRound >= 1 && minRound <= 3 && lowestPending > minRound && len(w.script[minRound]) == 0 {
		for _, n := range w.nodes {
			if n.round == minRound && !n.crashed {
				ev = append(ev, event{kind: "timer", node: n.idx})
			}
		}
	}
	return ev
}

// choose picks the next event according to the delivery strategy of the run.
func (w *World) choose(ev []event) event {
	if len(ev) == 1 {
		return ev[0]
	}
	// canonical order: as generated (starts, deliveries by emission order, inject, timers)
	pref := -1
	switch w.strategy {
	case 1:
		pref = 0
	case 2:
		pref = len(ev) - 1
	case 3:
		for i, e := range ev {
			if e.kind == "deliver" && w.pending[e.msg].Bcast {
				pref = i
				break
			}
		}
	case 4:
		for i, e := range ev {
			if e.node != w.starved {
				pref = i
				break
			}
		}
	}
	if pref >= 0 && !w.c.Bool(1, 4, "sched.deviate") {
		if pref != 0 {
			w.nonzeroSched = true
		}
		return ev[pref]
	}
	k := w.c.Choose(len(ev), "sched")
	if k != 0 {
		w.nonzeroSched = true
	}
	return ev[k]
}

func (w *World) removePending(i int) *Msg {
	m := w.pending[i]
	w.pending = append(w.pending[:i], w.pending[i+1:]...)
	return m
}

func (w *World) deliver(m *Msg) {
	r := w.nodes[m.To]
	w.events++
	w.out.SimTime["deliveries"]++
	w.ev("deliver %s", m)
	if !r.byz {
		w.fp = append(w.fp, fmt.Sprintf("d%d:%s:%s:%d", m.To, m.Kind, m.Label, m.Round))
		if !m.Bcast && m.From == w.dealer && w.proto == FVSS && w.shareFirst[m.To] == nil {
			w.shareFirst[m.To] = m
		}
		if !m.Bcast && w.proto != FVSS && w.isDealer(m.From) && r.round == 1 {
			if w.firstPriv == nil {
				w.firstPriv = map[[2]int]*Msg{}
			}
			if w.firstPriv[[2]int{m.From, m.To}] == nil {
				w.firstPriv[[2]int{m.From, m.To}] = m
			}
		}
	}
	var err error
	var p bool
	// every delivery hands the instance the transport's own receive buffer, which is recycled
	// (overwritten) as soon as the handler has returned: whatever an instance needs later it
	// must have copied
	buf := append(make([]byte, 0, len(m.Data)+8), m.Data...)
	if m.Bcast {
		err, p = w.call(r, "HandleBroadcastMsg", func() error { return r.st.HandleBroadcastMsg(m.From, buf) })
	} else {
		err, p = w.call(r, "HandlePrivateMsg", func() error { return r.st.HandlePrivateMsg(m.From, buf) })
	}
	for i := range buf[:cap(buf)] {
		buf[:cap(buf)][i] = 0xA7
	}
	// another DKG session may be set up in the same process at any time: constructing an
	// unrelated instance (other size and threshold) has no effect on the running ones
	if w.unrelatedAt > 0 && w.events == w.unrelatedAt {
		n2 := 2 + w.c.Choose(9, "unrelated.n")
		t2 := 1 + w.c.Choose(n2-1, "unrelated.t")
		cp := &capture{shares: map[int][]byte{}}
		switch w.c.Choose(3, "unrelated.proto") {
		case 0:
			_, _ = crypto.NewFeldmanVSS(n2, t2, 0, cp, 0)
		case 1:
			_, _ = crypto.NewFeldmanVSSQual(n2, t2, 0, cp, 0)
		default:
			_, _ = crypto.NewJointFeldman(n2, t2, 0, cp)
		}
		w.fault("process.unrelated_instance_created")
		w.ev("an unrelated DKG instance (n=%d, t=%d) is constructed in the same process", n2, t2)
	}
	if !p && err != nil {
		cls := "handler.error:" + protoName[w.proto] + ":" + errClass(err)
		w.viol("C10", "legalcall", cls, "legal handler call on running node %d returned %v", r.idx, err)
		if w.prop != "C10" {
			w.viol(w.prop, "legalcall", cls, "legal handler call on running node %d returned %v", r.idx, err)
		}
	}
}

func errClass(err error) string {
	switch {
	case err == nil:
		return "nil"
	case crypto.IsDKGInvalidStateTransitionError(err):
		return "state"
	case crypto.IsInvalidInputsError(err):
		return "input"
	case crypto.IsDKGFailureError(err):
		return "failure"
	}
	return "other"
}

func (w *World) timer(n *Node) {
	w.events++
	w.out.SimTime["timer_events"]++
	n.round++
	if w.proto == FVSS || n.round == 4 {
		n.round = 4
		w.ev("timer node %d: End()", n.idx)
		w.fp = append(w.fp, fmt.Sprintf("E%d", n.idx))
		_, _ = w.call(n, "End", func() error {
			n.sk, n.gpk, n.pks, n.endErr = n.st.End()
			return nil
		})
		n.ended = true
		res := "keys"
		if n.endErr != nil {
			res = "error:" + errClass(n.endErr)
		}
		w.ev("node %d End -> %s gpk=%s", n.idx, res, clipStr(encPub(n.gpk), 24))
		if n.endErr == nil && n.sk != nil {
			w.ev("node %d keys sk=%x", n.idx, n.sk.Encode())
			for _, pk := range n.pks {
				w.evlog = append(w.evlog, encPub(pk))
			}
		}
		return
	}
	w.ev("timer node %d: NextTimeout() -> round %d", n.idx, n.round)
	w.fp = append(w.fp, fmt.Sprintf("T%d", n.idx))
	err, p := w.call(n, "NextTimeout", func() error { return n.st.NextTimeout() })
	if !p && err != nil {
		cls := "timeout.error:" + protoName[w.proto] + ":" + errClass(err)
		w.viol("C10", "legalcall", cls, "legal NextTimeout on node %d returned %v", n.idx, err)
		if w.prop != "C10" {
			w.viol(w.prop, "legalcall", cls, "legal NextTimeout on node %d returned %v", n.idx, err)
		}
	}
}

func (w *World) start(n *Node) {
	w.events++
	n.round = 1
	n.started = true
	w.ev("start node %d (%s)", n.idx, role(n))
	err, p := w.call(n, "Start", func() error { return n.st.Start(w.seeds[n.idx]) })
	if !p && err != nil {
		w.viol(w.prop, "legalcall", "start.error:"+protoName[w.proto], "Start on fresh node %d returned %v", n.idx, err)
	}
}

// maybeForce issues ForceDisqualify at a seeded point of the run; every honest node gets the
// same targets before it ends (the documentation's requirement), at individually chosen times.
func (w *World) planForce() map[int][]int {
	plan := map[int][]int{}
	if w.proto == FVSS || !w.c.Bool(1, 10, "force?") {
		return plan
	}
	target := w.c.Choose(w.n, "force.target")
	w.out.Params["force_disqualify"] = target
	for _, n := range w.nodes {
		if !n.byz {
			plan[n.idx] = []int{target}
		}
	}
	w.fault("external.force_disqualify")
	return plan
}

func (w *World) runProto() {
	if w.aborted {
		return
	}
	force := w.planForce()
	forceAt := map[int]int{} // node -> number of own calls after which the force happens
	for i := 0; i < w.n; i++ { // never iterate a map where order reaches the choice stream or the event log
		if _, ok := force[i]; ok {
			forceAt[i] = 1 + w.c.Choose(12, "force.at")
		}
	}
	steps := 0
	for {
		steps++
		if steps > 200000 {
			w.viol("HARNESS", "watchdog", "watchdog.steps", "run exceeded 200000 events")
			return
		}
		for _, n := range w.nodes {
			if n.crashed && !n.byz {
				return // an honest node panicked: reported, stop the run
			}
		}
		// external ForceDisqualify
		for i := 0; i < w.n; i++ {
			tg := force[i]
			n := w.nodes[i]
			if n.started && !n.ended && len(tg) > 0 && (n.calls >= forceAt[i] || n.round == 3) {
				for _, t := range tg {
					tt := t
					err, _ := w.call(n, "ForceDisqualify", func() error { return n.st.ForceDisqualify(tt) })
					w.ev("node %d ForceDisqualify(%d) -> %v", n.idx, tt, errClass(err))
					n.forced[tt] = true
				}
				force[i] = nil
			}
		}
		ev := w.legalEvents()
		if len(ev) == 0 {
			break
		}
		e := w.choose(ev)
		switch e.kind {
		case "start":
			w.start(w.nodes[e.node])
		case "deliver":
			w.deliver(w.removePending(e.msg))
		case "inject":
			b := w.byz[e.node]
			w.script[w.injectRound] = w.script[w.injectRound][1:]
			w.events++
			w.inject(b, w.maxRound)
		case "timer":
			w.timer(w.nodes[e.node])
		}
	}
	w.out.SimTime["protocol_rounds"] += 3
	for _, n := range w.nodes {
		if !n.ended && !n.crashed {
			w.viol("HARNESS", "watchdog", "stall", "simulation stalled: node %d never ended (round %d, %d pending)", n.idx, n.round, len(w.pending))
			return
		}
	}
	w.checkEnd()
}

// ---- end-of-run oracles ---------------------------------------------------------------

func (w *World) honestNodes() []*Node {
	var h []*Node
	for _, n := range w.nodes {
		if !n.byz {
			h = append(h, n)
		}
	}
	return h
}

func (w *World) disqSet(n *Node) []int {
	s := map[int]bool{}
	for i := range n.disq {
		if w.isDealer(i) {
			s[i] = true
		}
	}
	for i := range n.forced {
		if w.isDealer(i) {
			s[i] = true
		}
	}
	return sortedKeys(s)
}

func (w *World) checkEnd() {
	hs := w.honestNodes()
	for _, n := range hs {
		if n.crashed {
			return
		}
	}
	// reach probes
	for d, v := range w.vecFirst {
		_ = d
		if v.round > 1 {
			w.probe("vector_late")
		}
		if !v.well {
			w.probe("vector_malformed_first")
		}
	}
	for d, cs := range w.complainers {
		if len(cs) == w.t {
			w.probe("exactly_t_complaints")
		}
		if len(cs) == w.t+1 {
			w.probe("t_plus_1_complaints")
		}
		if len(w.honestCompl[d]) > 0 {
			w.probe("honest_complaint")
		}
	}
	if w.proto != FVSS {
		w.checkAgreement(hs)
	}
	w.checkFairness(hs)
}

// checkAgreement: property C07.
func (w *World) checkAgreement(hs []*Node) {
	ref := hs[0]
	refSet := fmt.Sprint(w.disqSet(ref))
	for _, n := range hs[1:] {
		if s := fmt.Sprint(w.disqSet(n)); s != refSet {
			w.viol("C07", "agree.disq", "agree.disqualified-set:"+protoName[w.proto],
				"honest nodes %d and %d disagree on the disqualified dealers: %s vs %s", ref.idx, n.idx, refSet, s)
			return
		}
	}
	fail := 0
	for _, n := range hs {
		if n.endErr != nil {
			if !crypto.IsDKGFailureError(n.endErr) {
				w.viol("C07", "agree.outcome", "end.errorclass:"+protoName[w.proto], "End() of honest node %d after two timeouts returned %v (class %s)", n.idx, n.endErr, errClass(n.endErr))
				return
			}
			fail++
		}
	}
	if fail != 0 && fail != len(hs) {
		var who []string
		for _, n := range hs {
			who = append(who, fmt.Sprintf("%d:%s", n.idx, errClass(n.endErr)))
		}
		w.viol("C07", "agree.outcome", "agree.outcome:"+protoName[w.proto], "honest nodes disagree on success/failure of the DKG: %v", who)
		return
	}
	dq := w.disqSet(ref)
	if w.proto == QUAL {
		dealerDisq := len(dq) > 0
		if dealerDisq != (fail > 0) {
			w.viol("C07", "agree.outcome", "qual.verdict-vs-callbacks", "dealer disqualified per callbacks=%v but End failed=%v", dealerDisq, fail > 0)
			return
		}
	}
	if w.proto == JF {
		w.probe(fmt.Sprintf("jf_disqualified_%d", min(len(dq), 3)))
		if fail > 0 {
			w.probe("jf_failed")
		}
		if fail == 0 && w.n-len(dq) <= w.t {
			w.probe("jf_keys_with_at_most_t_qualified")
		}
	}
	if fail > 0 {
		w.probe("dkg_failed")
		return
	}
	w.probe("dkg_succeeded")
	// keys: byte-identical group key and public shares
	refG := ref.gpk.Encode()
	for _, n := range hs {
		if n.sk == nil || n.gpk == nil || len(n.pks) != w.n {
			w.viol("C07", "agree.keys", "keys.shape", "node %d returned nil keys or %d public shares with a nil error", n.idx, len(n.pks))
			return
		}
		if !bytes.Equal(n.gpk.Encode(), refG) {
			w.viol("C07", "agree.keys", "agree.groupkey:"+protoName[w.proto], "honest nodes %d and %d hold different group public keys", ref.idx, n.idx)
			return
		}
		for i := range n.pks {
			if !bytes.Equal(n.pks[i].Encode(), ref.pks[i].Encode()) {
				w.viol("C07", "agree.keys", "agree.pubshares:"+protoName[w.proto], "honest nodes %d and %d hold different public key share #%d", ref.idx, n.idx, i)
				return
			}
		}
	}
	// private share matches public share
	for _, n := range hs {
		if !n.sk.PublicKey().Equals(ref.pks[n.idx]) {
			w.viol("C07", "keys.consistent", "share.mismatch:"+protoName[w.proto], "private share of honest node %d does not match its public share", n.idx)
			return
		}
	}
	// (Y, y_0..y_{n-1}) = Q(0..n) for a polynomial Q of degree <= t: all (t+1)-th finite differences vanish
	seq := append([]crypto.PublicKey{ref.gpk}, ref.pks...)
	for k := 0; k <= w.t; k++ {
		next := make([]crypto.PublicKey, len(seq)-1)
		for i := range next {
			d, err := crypto.RemoveBLSPublicKeys(seq[i+1], []crypto.PublicKey{seq[i]})
			if err != nil {
				w.viol("C07", "keys.consistent", "degree.error", "RemoveBLSPublicKeys failed: %v", err)
				return
			}
			next[i] = d
		}
		seq = next
	}
	id := crypto.IdentityBLSPublicKey()
	for _, d := range seq {
		if !d.Equals(id) {
			w.viol("C07", "keys.consistent", "degree:"+protoName[w.proto], "group key and public shares do not lie on one polynomial of degree <= t=%d", w.t)
			return
		}
	}
	// independent recomputation of the group key from the broadcast vectors of qualified dealers
	if w.proto == JF || w.proto == QUAL {
		var a0 []crypto.PublicKey
		ok := true
		disq := map[int]bool{}
		for _, d := range dq {
			disq[d] = true
		}
		for d := 0; d < w.n && ok; d++ {
			if !w.isDealer(d) || disq[d] {
				continue
			}
			vb := w.firstVecBytes[d]
			if len(vb) < 96 {
				ok = false
				break
			}
			pk, err := crypto.DecodePublicKey(crypto.BLSBLS12381, vb[:96])
			if err != nil {
				ok = false
				break
			}
			a0 = append(a0, pk)
		}
		if ok && len(a0) > 0 {
			sum, err := crypto.AggregateBLSPublicKeys(a0)
			if err == nil && !sum.Equals(ref.gpk) {
				w.viol("C07", "keys.consistent", "groupkey-vs-vectors:"+protoName[w.proto], "group key is not the sum of A_0 over the qualified dealers %v-complement", dq)
				if len(dq) > 0 {
					// C08: "disqualified by every honest participant" means left out of the keys, not only
					// reported through the callback
					w.viol("C08", "bad-dealing-accepted", "disqualified-dealer-in-keys:"+protoName[w.proto], "dealers %v were disqualified (callbacks) at every honest participant, but the returned group key is not the sum over the remaining dealers", dq)
				}
				return
			}
			w.probe("groupkey_recomputed_from_vectors")
		}
	}
	// threshold signatures from honest signers
	w.checkThreshold(hs, ref)
}

func (w *World) checkThreshold(hs []*Node, ref *Node) {
	if len(hs) < w.t+1 {
		return
	}
	msg := []byte("dkgsim threshold message")
	tag := "dkgsim-tag"
	hasher := crypto.NewExpandMsgXOFKMAC128(tag)
	shares := make([]crypto.Signature, len(hs))
	for i, n := range hs {
		s, err := n.sk.Sign(msg, hasher)
		if err != nil {
			w.viol("C07", "keys.threshold", "sign.error", "Sign with DKG share failed: %v", err)
			return
		}
		shares[i] = s
	}
	subsets := 1
	if len(hs) > w.t+1 {
		subsets = 3
	}
	var first []byte
	rnd := w.c.Sub("thr.subsets")
	for s := 0; s < subsets; s++ {
		perm := make([]int, len(hs))
		for i := range perm {
			perm[i] = i
		}
		for i := len(perm) - 1; i > 0; i-- {
			j := rnd.Intn(i + 1)
			perm[i], perm[j] = perm[j], perm[i]
		}
		var sh []crypto.Signature
		var signers []int
		for _, p := range perm[:w.t+1] {
			sh = append(sh, shares[p])
			signers = append(signers, hs[p].idx)
		}
		sig, err := crypto.BLSReconstructThresholdSignature(w.n, w.t, sh, signers)
		if err != nil {
			w.viol("C07", "keys.threshold", "reconstruct.error", "reconstruction from honest shares failed: %v", err)
			return
		}
		ok, err := ref.gpk.Verify(sig, msg, hasher)
		if err != nil || !ok {
			w.viol("C07", "keys.threshold", "threshold.invalid:"+protoName[w.proto], "threshold signature of honest signers %v does not verify under the group key", signers)
			return
		}
		if first == nil {
			first = sig
		} else if !bytes.Equal(first, sig) {
			w.viol("C07", "keys.threshold", "threshold.differs", "two subsets of honest signers reconstruct different signatures")
			return
		}
	}
	w.probe("threshold_signature_checked")
	// the same through the STATEFUL objects built from the DKG output: every honest participant
	// creates its participant object from (group key, public shares, own private share), signs
	// its share, and one of them collects t+1 of them with VerifyAndAdd
	if w.c.Bool(1, 3, "thr.stateful") {
		var parts []crypto.ThresholdSignatureParticipant
		for _, n := range hs {
			var p crypto.ThresholdSignatureParticipant
			var err error
			if _, pan := w.call(n, "NewBLSThresholdSignatureParticipant(DKG output)", func() error {
				p, err = crypto.NewBLSThresholdSignatureParticipant(n.gpk, n.pks, w.t, n.idx, n.sk, msg, tag)
				return err
			}); pan {
				return
			}
			if err != nil {
				w.viol("C07", "keys.threshold", "participant.ctor:"+protoName[w.proto], "the DKG output of honest node %d is refused by NewBLSThresholdSignatureParticipant: %v", n.idx, err)
				return
			}
			parts = append(parts, p)
		}
		col := parts[rnd.Intn(len(parts))]
		added := 0
		for k, p := range parts {
			var sh crypto.Signature
			var err error
			if _, pan := w.call(hs[k], "SignShare", func() error { sh, err = p.SignShare(); return err }); pan {
				return
			}
			if err != nil || !bytes.Equal(sh, shares[k]) {
				w.viol("C07", "keys.threshold", "participant.signshare:"+protoName[w.proto], "SignShare of honest node %d differs from Sign with its private share (err=%v)", hs[k].idx, err)
				return
			}
			if added <= w.t {
				ok, _, err := col.VerifyAndAdd(hs[k].idx, sh)
				if err != nil || !ok {
					w.viol("C07", "keys.threshold", "participant.verifyandadd:"+protoName[w.proto], "the share of honest node %d is rejected by the stateful object built from the DKG output (ok=%v err=%v)", hs[k].idx, ok, err)
					return
				}
				added++
			}
		}
		sig, err := col.ThresholdSignature()
		if err != nil || !bytes.Equal(sig, first) {
			w.viol("C07", "keys.threshold", "participant.thresholdsignature:"+protoName[w.proto], "the stateful object built from the DKG output returns err=%v / a signature different from the stateless reconstruction", err)
			return
		}
		w.probe("threshold_signature_stateful_checked")
	}
}

// checkFairness: property C08.
func (w *World) checkFairness(hs []*Node) {
	byzCount := len(w.byz)
	if w.proto == FVSS {
		vf := w.vecFirst[w.dealer]
		for _, n := range hs {
			if n.idx == w.dealer {
				continue
			}
			sf := w.shareFirst[n.idx]
			good := vf != nil && vf.round == 1 && vf.well && (vf.poly == "A" || vf.poly == "B") && sf != nil && sf.Well && sf.Poly == vf.poly && sf.Idx == n.idx
			if n.endErr == nil && !good {
				why := "share does not match the broadcast vector"
				if vf == nil || vf.round != 1 {
					why = "no vector received"
				} else if !vf.well {
					why = "invalid vector received"
				} else if sf == nil {
					why = "no share received"
				}
				cls := "fvss.keys-accepted:"
				if vf != nil && vf.round == 1 && !vf.well {
					cls += "invalid-vector"
				} else {
					cls += "share-mismatch"
				}
				w.viol("C08", "fvss.reject", cls, "plain Feldman VSS: honest node %d got keys from End() although %s", n.idx, why)
				return
			}
			if n.endErr != nil && !crypto.IsDKGFailureError(n.endErr) {
				w.viol("C08", "fvss.reject", "fvss.errorclass", "plain Feldman VSS: End() of node %d returned %v", n.idx, n.endErr)
				return
			}
			if n.endErr != nil {
				w.probe("fvss_failed")
			} else {
				w.probe("fvss_keys")
				// the keys a participant accepts are those of the FIRST vector the dealer broadcast
				// (later ones are duplicates: flagged, not acted upon) and its own share matches them
				if vb := w.firstVecBytes[w.dealer]; len(vb) >= 96 && n.gpk != nil && !bytes.Equal(n.gpk.Encode(), vb[:96]) {
					w.viol("C08", "fvss.reject", "fvss.keys-not-from-first-vector", "plain Feldman VSS: the group key node %d returns is not A_0 of the first vector the dealer broadcast", n.idx)
					return
				}
				if n.sk != nil && len(n.pks) == w.n && !n.sk.PublicKey().Equals(n.pks[n.idx]) {
					w.viol("C08", "fvss.reject", "fvss.keys-accepted:share-mismatch-in-keys", "plain Feldman VSS: node %d got keys from End() but its private share does not match its public share", n.idx)
					return
				}
			}
		}
	} else {
		// honest => never disqualified is checked at every callback; here: bad dealing => disqualified by everybody
		for d := 0; d < w.n; d++ {
			if !w.isDealer(d) || w.honest(d) {
				continue
			}
			why := w.mustDisqualify(d)
			if why == "" {
				// the dealer may stay: then every honest participant whose first private message
				// from it (round 1) was not its share of the broadcast vector - or who got none -
				// has complained in public (the complaint is what gives the others the means to judge)
				vf := w.vecFirst[d]
				for _, n := range hs {
					if n.idx == d || n.disq[d] || n.forced[d] {
						continue
					}
					sf := w.firstPriv[[2]int{d, n.idx}]
					bad := sf == nil || sf.Kind != "share" || !sf.Well || sf.Poly != vf.poly || sf.Idx != n.idx
					if bad && !w.honestCompl[d][n.idx] {
						got := "no private message in round 1"
						if sf != nil {
							got = fmt.Sprintf("first private message %s [%s] poly=%q idx=%d", sf.Kind, sf.Label, sf.Poly, sf.Idx)
						}
						w.viol("C08", "bad.accepted", "bad-share-no-complaint:"+protoName[w.proto],
							"honest node %d did not get its share of the vector from Byzantine dealer %d (%s), the dealer stays qualified, and node %d never complained", n.idx, d, got, n.idx)
						return
					}
				}
				continue
			}
			w.probe("must_disqualify")
			for _, n := range hs {
				if !n.disq[d] && !n.forced[d] {
					w.viol("C08", "bad.accepted", "bad-dealer-kept:"+protoName[w.proto]+":"+why,
						"honest node %d did not disqualify Byzantine dealer %d although %s", n.idx, d, why)
					return
				}
			}
		}
	}
	// bounded liveness: no Byzantine participant, no external disqualification => everybody gets keys
	if byzCount == 0 {
		forced := false
		for _, n := range hs {
			if len(n.forced) > 0 {
				forced = true
			}
		}
		if !forced {
			for _, n := range hs {
				if n.endErr != nil {
					w.viol("C08", "liveness", "liveness.failed:"+protoName[w.proto], "fault-free run: End() of node %d returned %v", n.idx, n.endErr)
					return
				}
				if len(n.disq) > 0 {
					w.viol("C08", "honest.blamed", "liveness.disqualified:"+protoName[w.proto], "fault-free run: node %d disqualified %v", n.idx, sortedKeys(n.disq))
					return
				}
			}
			w.probe("fault_free_run_succeeded")
		}
	}
}

// mustDisqualify returns a non-empty reason if the label-based reference rule says that every
// honest participant has to disqualify Byzantine dealer d.
func (w *World) mustDisqualify(d int) string {
	vf := w.vecFirst[d]
	if vf == nil {
		return "vector-missing"
	}
	if vf.round > 1 {
		return "vector-late"
	}
	if !vf.well {
		return "vector-malformed"
	}
	if len(w.complainers[d]) > w.t {
		return "more-than-t-complaints"
	}
	if w.badAnswer[d] {
		return "answer-malformed"
	}
	var hc []int
	for j := range w.honestCompl[d] {
		hc = append(hc, j)
	}
	sort.Ints(hc)
	for _, j := range hc {
		a := w.ansFirst[d][j]
		switch {
		case a == nil:
			return "honest-complaint-unanswered"
		case !a.well:
			return "answer-malformed"
		case a.poly != vf.poly || a.idx != j || (vf.poly != "A" && vf.poly != "B"):
			return "answer-wrong"
		}
	}
	return ""
}
