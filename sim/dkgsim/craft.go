package dkgsim

// Craft mode: an HONEST dealer whose secret polynomial is not random but chosen by the
// simulator from families that put the receivers' public-share computation (Horner evaluation
// of the verification vector in G2) onto the edge cases of the group law: a partial sum equal
// to the next coefficient (doubling), opposite to it (intermediate infinity), a zero middle
// coefficient (infinity inside the vector), equal / opposite / tiny coefficients.
//
// The dealer is played by the simulator itself and sends exactly what an honest instance with
// that polynomial sends: the vector (a_i * g2, obtained through DecodePrivateKey(a_i).PublicKey(),
// i.e. the library's generator multiplication, not the code under test here) and the shares
// P(j+1). A real dealer draws such a polynomial with negligible probability, so no test and no
// seed search ever reaches these cases, but every such dealer IS honest: the receivers (real
// Feldman VSS / Feldman-VSS-Qual instances, all honest) must accept the dealing in every
// delivery order, must not complain, disqualify or flag, and must return exactly the keys
// that follow from the polynomial, which the simulator knows in the clear:
// sk_j = P(j+1), pk_j = P(j+1)*g2, group key = a_0*g2.  (C08: honest never blamed; C07: keys.)

import (
	"bytes"
	"fmt"
	"math/big"

	crypto "github.com/onflow/crypto"

	"verifsim/choice"
	"verifsim/curve"
	"verifsim/engine"
)

type craftProc struct {
	idx   int
	sends []string
	cbs   []string
	out   [][]byte // broadcasts emitted by this receiver (delivered to the others)
}

func (p *craftProc) PrivateSend(dest int, data []byte) {
	p.sends = append(p.sends, fmt.Sprintf("private to %d: %x", dest, data))
}
func (p *craftProc) Broadcast(data []byte) {
	p.sends = append(p.sends, fmt.Sprintf("broadcast: %x", data))
	p.out = append(p.out, append([]byte(nil), data...))
}
func (p *craftProc) Disqualify(i int, log string) {
	p.cbs = append(p.cbs, fmt.Sprintf("Disqualify(%d): %s", i, logKey(log)))
}
func (p *craftProc) FlagMisbehavior(i int, log string) {
	p.cbs = append(p.cbs, fmt.Sprintf("FlagMisbehavior(%d): %s", i, logKey(log)))
}

func scalar32(x *big.Int) []byte {
	b := make([]byte, 32)
	new(big.Int).Mod(x, curve.R).FillBytes(b)
	return b
}

func evalPoly(a []*big.Int, x int64) *big.Int {
	r := new(big.Int)
	bx := big.NewInt(x)
	for i := len(a) - 1; i >= 0; i-- {
		r.Mul(r, bx).Add(r, a[i]).Mod(r, curve.R)
	}
	return r
}

var craftFamilies = []string{"random", "doubling", "cancel", "zero-middle", "equal", "opposite", "tiny", "doubling-chain", "same-share", "byz-root"}

func runCraft(c *choice.Src, o engine.Opt, out *engine.Out) {
	var evlog, trace, fp []string
	ev := func(f string, a ...any) {
		s := fmt.Sprintf(f, a...)
		evlog = append(evlog, s)
		if o.Trace {
			trace = append(trace, s)
		}
	}
	viol := func(prop, oracle, class, f string, a ...any) {
		d := fmt.Sprintf(f, a...)
		out.Viols = append(out.Viols, engine.Viol{Property: prop, Oracle: oracle, Class: class, Detail: d})
		ev("VIOLATION[%s] %s: %s", prop, class, d)
	}
	defer func() {
		out.Trace = trace
		out.EventHash = engine.HexHash(evlog)
		out.Fingerprint = engine.HashStrings(fp...)
		out.Nontrivial = true
	}()
	proto := c.Choose(2, "proto") // FVSS or QUAL
	n := 2 + c.Choose(7, "n")
	if c.Bool(1, 12, "wide") {
		n = []int{127, 128, 129, 200, 254}[c.Choose(5, "nwide")]
	}
	t := 1 + c.Choose(n-1, "t")
	if n > 20 {
		t = 1 + c.Choose(4, "twide")
	}
	d := c.Choose(n, "dealer")
	fam := c.Choose(len(craftFamilies), "family")
	rnd := c.Sub("coefficients")
	a := make([]*big.Int, t+1)
	for i := range a {
		a[i] = new(big.Int).SetBytes(curve.ScalarRandom(rnd))
		a[i].Mod(a[i], curve.R)
		if a[i].Sign() == 0 {
			a[i].SetInt64(7)
		}
	}
	x := int64(1 + c.Choose(n, "x"))  // evaluation point (participant x-1) the relation is aimed at
	k := c.Choose(t, "k")             // relation between a_k and a_{k+1} (k+1 <= t)
	mulx := func(v *big.Int, s int64) *big.Int { return new(big.Int).Mod(new(big.Int).Mul(v, big.NewInt(s)), curve.R) }
	switch craftFamilies[fam] {
	case "doubling": // Horner: y = ...; y = x*y + A_k with x*(partial sum) == A_k at the top of the polynomial
		k = t - 1
		a[k] = mulx(a[k+1], x)
	case "cancel": // x*(partial sum) == -A_k: the running sum passes through infinity
		k = t - 1
		a[k] = new(big.Int).Sub(curve.R, mulx(a[k+1], x))
	case "zero-middle":
		if t >= 2 {
			a[1+c.Choose(t-1, "zero.at")].SetInt64(0)
		}
	case "equal":
		a[k] = new(big.Int).Set(a[k+1])
	case "opposite":
		a[k] = new(big.Int).Sub(curve.R, a[k+1])
	case "tiny":
		for i := range a {
			a[i] = big.NewInt(int64(1 + c.Choose(3, "tiny.v")))
			if c.Bool(1, 4, "tiny.neg") {
				a[i].Sub(curve.R, a[i])
			}
		}
	case "doubling-chain": // every Horner step at x is a doubling: a_i = x * a_{i+1} ... partial sums: s_t = a_t, s_{i} = x*s_{i+1} + a_i
		s := new(big.Int).Set(a[t])
		for i := t - 1; i >= 0; i-- {
			xs := mulx(s, x)
			a[i] = new(big.Int).Set(xs) // x*s + a_i with a_i == x*s: doubling at every step
			s = new(big.Int).Mod(new(big.Int).Add(xs, a[i]), curve.R)
		}
	case "same-share": // two participants get the same share: P(x) == P(x2), by solving for a_0... a_1
		if t >= 1 && n >= 2 {
			x2 := int64(1 + (int(x) % n))
			if x2 != x {
				// P(x) - P(x2) = sum_{i>=1} a_i (x^i - x2^i) = 0  ->  solve for a_1
				acc := new(big.Int)
				for i := 2; i <= t; i++ {
					dx := new(big.Int).Sub(new(big.Int).Exp(big.NewInt(x), big.NewInt(int64(i)), curve.R), new(big.Int).Exp(big.NewInt(x2), big.NewInt(int64(i)), curve.R))
					acc.Add(acc, dx.Mul(dx, a[i]))
				}
				inv := new(big.Int).ModInverse(new(big.Int).Mod(big.NewInt(x-x2), curve.R), curve.R)
				a[1] = acc.Neg(acc).Mul(acc, inv).Mod(acc, curve.R)
			}
		}
	}
	// byz-root (Feldman-VSS-Qual only): NOT an honest dealer. The vector commits to a polynomial
	// with a root at the victim's evaluation point (its public key share is the identity, no
	// valid private share exists), everybody else gets a correct share, the victim gets none and
	// the dealer never answers its complaint. Only AGREEMENT is demanded: the honest receivers
	// leave End() with the same verdict.
	byzRoot := craftFamilies[fam] == "byz-root" && n >= 3
	victim := -1
	// what the victim is sent instead of a share: nothing, the zero scalar (the "true" image),
	// a tag without payload, a short payload, the group order r
	victimShare := 0
	if byzRoot {
		victimShare = c.Choose(5, "root.victimshare")
		victim = c.Choose(n-1, "root.victim")
		if victim >= d {
			victim++
		}
		xv := big.NewInt(int64(victim + 1))
		acc := new(big.Int)
		for i := t; i >= 1; i-- {
			acc.Add(acc, a[i]).Mul(acc, xv).Mod(acc, curve.R)
		}
		a[0] = new(big.Int).Sub(curve.R, acc)
		a[0].Mod(a[0], curve.R)
	}
	// an honest dealer has a_0 != 0 and a_t != 0; and a zero share (probability 2^-255 for a real
	// dealer) cannot be transported by the protocol: keep the polynomial inside what honest dealers do
	if a[0].Sign() == 0 {
		a[0].SetInt64(5)
	}
	if a[t].Sign() == 0 {
		a[t].SetInt64(3)
	}
	for j := 1; j <= n && !byzRoot; j++ {
		if evalPoly(a, int64(j)).Sign() == 0 {
			a[0].Add(a[0], big.NewInt(1)).Mod(a[0], curve.R)
			if a[0].Sign() == 0 {
				a[0].SetInt64(1)
			}
			j = 0
		}
	}
	out.Params["proto"], out.Params["n"], out.Params["t"], out.Params["dealer"] = protoName[proto], n, t, d
	out.Params["family"], out.Params["x"], out.Params["k"] = craftFamilies[fam], x, k
	out.Faults["crafted_polynomial."+craftFamilies[fam]]++
	fp = append(fp, fmt.Sprint(proto, n, t, d, fam, x, k))
	ev("craft world %s n=%d t=%d dealer=%d family=%s x=%d k=%d", protoName[proto], n, t, d, craftFamilies[fam], x, k)

	pubOf := func(s *big.Int) ([]byte, error) {
		if s.Sign() == 0 {
			b := make([]byte, 96)
			b[0] = 0xC0
			return b, nil
		}
		sk, err := crypto.DecodePrivateKey(crypto.BLSBLS12381, scalar32(s))
		if err != nil {
			return nil, err
		}
		return sk.PublicKey().Encode(), nil
	}
	vec := []byte{tagVec}
	for i := range a {
		p, err := pubOf(a[i])
		if err != nil {
			viol("HARNESS", "craft", "craft.vector", "cannot build A_%d: %v", i, err)
			return
		}
		vec = append(vec, p...)
	}
	wantGroup, _ := pubOf(a[0])
	wantPk := make([][]byte, n)
	wantSk := make([][]byte, n)
	for j := 0; j < n; j++ {
		s := evalPoly(a, int64(j+1))
		wantSk[j] = scalar32(s)
		p, err := pubOf(s)
		if err != nil {
			viol("HARNESS", "craft", "craft.pk", "cannot build pk_%d: %v", j, err)
			return
		}
		wantPk[j] = p
	}
	// receivers
	type rcv struct {
		idx  int
		st   crypto.DKGState
		proc *craftProc
	}
	var rs []*rcv
	seeds := c.Sub("seeds")
	for i := 0; i < n; i++ {
		if i == d {
			continue
		}
		if n > 20 && len(rs) >= 6 && i != int(x-1) && i != n-1 && i != victim {
			continue // wide worlds: a handful of receivers incl. the targeted one and the highest index
		}
		p := &craftProc{idx: i}
		var st crypto.DKGState
		var err error
		if proto == FVSS {
			st, err = crypto.NewFeldmanVSS(n, t, i, p, d)
		} else {
			st, err = crypto.NewFeldmanVSSQual(n, t, i, p, d)
		}
		if err != nil {
			viol(o.Property, "setup", "setup.constructor", "constructor failed: %v", err)
			return
		}
		if err := st.Start(seeds.Bytes(32)); err != nil {
			viol(o.Property, "legalcall", "start.error:"+protoName[proto], "Start returned %v", err)
			return
		}
		rs = append(rs, &rcv{idx: i, st: st, proc: p})
	}
	call := func(r *rcv, what string, f func() error) bool {
		var err error
		panicked := false
		func() {
			defer func() {
				if rec := recover(); rec != nil {
					panicked = true
					viol("C09", "nopanic", "panic:craft:"+protoName[proto], "receiver %d %s panicked: %v", r.idx, what, rec)
					if o.Property != "C09" {
						viol(o.Property, "nopanic", "panic:craft:"+protoName[proto], "receiver %d %s panicked: %v", r.idx, what, rec)
					}
				}
			}()
			err = f()
		}()
		if panicked {
			return false
		}
		if err != nil {
			viol(o.Property, "legalcall", "craft.call-error:"+protoName[proto], "receiver %d: %s returned %v", r.idx, what, err)
			return false
		}
		out.SimTime["message_deliveries"]++
		return true
	}
	// round 1: vector and share reach every receiver, in a seeded order per receiver and across receivers
	type dl struct {
		r     *rcv
		share bool
	}
	var todo []dl
	for _, r := range rs {
		todo = append(todo, dl{r, false})
		if r.idx != victim || victimShare != 0 {
			todo = append(todo, dl{r, true})
		}
	}
	for len(todo) > 0 {
		i := c.Choose(len(todo), "deliver")
		e := todo[i]
		todo = append(todo[:i], todo[i+1:]...)
		fp = append(fp, fmt.Sprintf("%d:%v", e.r.idx, e.share))
		if e.share {
			msg := append([]byte{tagShare}, wantSk[e.r.idx]...)
			if e.r.idx == victim {
				switch victimShare {
				case 2:
					msg = []byte{tagShare}
				case 3:
					msg = msg[:32]
				case 4:
					msg = append([]byte{tagShare}, scalar32(curve.R)...)
				}
				out.Faults["crafted_root_dealing.malformed_share_to_victim"]++
			}
			ev("deliver share to %d", e.r.idx)
			if !call(e.r, "HandlePrivateMsg(share)", func() error { return e.r.st.HandlePrivateMsg(d, msg) }) {
				return
			}
		} else {
			ev("deliver vector to %d", e.r.idx)
			if !call(e.r, "HandleBroadcastMsg(vector)", func() error { return e.r.st.HandleBroadcastMsg(d, vec) }) {
				return
			}
		}
	}
	// whatever a receiver broadcast (nothing is expected) reaches the others
	flush := func() {
		for _, r := range rs {
			for _, m := range r.proc.out {
				for _, q := range rs {
					if q != r {
						_ = call(q, "HandleBroadcastMsg(from receiver)", func() error { return q.st.HandleBroadcastMsg(r.idx, m) })
					}
				}
			}
			r.proc.out = nil
		}
	}
	flush()
	if proto == QUAL {
		for round := 0; round < 2; round++ {
			for _, r := range rs {
				if !call(r, "NextTimeout", r.st.NextTimeout) {
					return
				}
			}
			flush()
		}
	}
	out.SimTime["protocol_rounds"] += 3
	if byzRoot {
		var verdicts []string
		for _, r := range rs {
			var endErr error
			okc := true
			func() {
				defer func() {
					if rec := recover(); rec != nil {
						okc = false
						viol("C09", "nopanic", "panic:craft:"+protoName[proto], "receiver %d End panicked: %v", r.idx, rec)
					}
				}()
				_, _, _, endErr = r.st.End()
			}()
			if !okc {
				return
			}
			v := "keys"
			if endErr != nil {
				v = "error:" + errClass(endErr)
			}
			ev("receiver %d: sends=%d callbacks=%v End -> %s", r.idx, len(r.proc.sends), r.proc.cbs, v)
			verdicts = append(verdicts, fmt.Sprintf("%d:%s", r.idx, v))
			if proto == FVSS {
				// plain Feldman VSS has no complaints: the victim, which holds no share matching the
				// vector, gets a DKG failure from End and never keys; the others hold valid shares
				if r.idx == victim && endErr == nil {
					viol("C08", "fvss.reject", "craft.byz-root.fvss-victim-got-keys", "plain Feldman VSS: Byzantine dealer %d committed to a polynomial with a root at participant %d and sent it no valid share (kind %d), yet End() of that participant returned keys", d, victim, victimShare)
					return
				}
				if r.idx == victim && !crypto.IsDKGFailureError(endErr) {
					viol("C08", "fvss.reject", "fvss.errorclass", "plain Feldman VSS: End() of participant %d returned %v", r.idx, endErr)
					return
				}
				if r.idx != victim && endErr != nil {
					viol("C08", "fvss.reject", "craft.byz-root.fvss-valid-share-refused", "plain Feldman VSS: participant %d holds a share matching the valid vector of dealer %d, End() returned %v", r.idx, d, endErr)
					return
				}
				continue
			}
			if (endErr == nil) != (verdicts[0][len(fmt.Sprint(rs[0].idx))+1:] == "keys") {
				viol("C07", "agree.outcome", "craft.byz-root.disagree", "Byzantine dealer %d committed to a polynomial with a root at participant %d, gave it no share and never answered: honest receivers disagree on the outcome: %v", d, victim, verdicts)
				return
			}
		}
		out.Probes["crafted_root_dealing_agreed"]++
		return
	}
	for _, r := range rs {
		var sk crypto.PrivateKey
		var gpk crypto.PublicKey
		var pks []crypto.PublicKey
		var endErr error
		okc := true
		func() {
			defer func() {
				if rec := recover(); rec != nil {
					okc = false
					viol("C09", "nopanic", "panic:craft:"+protoName[proto], "receiver %d End panicked: %v", r.idx, rec)
				}
			}()
			sk, gpk, pks, endErr = r.st.End()
		}()
		if !okc {
			return
		}
		ev("receiver %d: sends=%d callbacks=%v End err=%v", r.idx, len(r.proc.sends), r.proc.cbs, endErr)
		if len(r.proc.cbs) > 0 {
			viol("C08", "honest-blamed", "craft.honest-dealer-blamed:"+craftFamilies[fam], "honest dealer %d (polynomial family %s, x=%d) was blamed by honest receiver %d: %v", d, craftFamilies[fam], x, r.idx, r.proc.cbs)
			return
		}
		if len(r.proc.sends) > 0 {
			viol("C08", "honest-blamed", "craft.honest-dealing-rejected:"+craftFamilies[fam], "honest receiver %d reacted to the dealing of honest dealer %d (family %s, x=%d) with %v", r.idx, d, craftFamilies[fam], x, r.proc.sends[0])
			return
		}
		if endErr != nil {
			viol("C08", "honest-blamed", "craft.end-failed:"+craftFamilies[fam], "End() of receiver %d failed although the dealer is honest (family %s): %v", r.idx, craftFamilies[fam], endErr)
			return
		}
		if sk == nil || !bytes.Equal(sk.Encode(), wantSk[r.idx]) {
			viol("C07", "keys", "craft.private-share:"+craftFamilies[fam], "receiver %d: private key share is not P(%d)", r.idx, r.idx+1)
			return
		}
		if gpk == nil || !bytes.Equal(gpk.Encode(), wantGroup) {
			viol("C07", "keys", "craft.group-key:"+craftFamilies[fam], "receiver %d: group public key is not a_0*g2", r.idx)
			return
		}
		if len(pks) != n {
			viol("C07", "keys", "craft.public-shares:"+craftFamilies[fam], "receiver %d: %d public key shares", r.idx, len(pks))
			return
		}
		for j := 0; j < n; j++ {
			if !bytes.Equal(pks[j].Encode(), wantPk[j]) {
				viol("C07", "keys", "craft.public-shares:"+craftFamilies[fam], "receiver %d: public key share of participant %d is not P(%d)*g2 (family %s, x=%d, k=%d)", r.idx, j, j+1, craftFamilies[fam], x, k)
				return
			}
		}
		if !sk.PublicKey().Equals(pks[r.idx]) {
			viol("C07", "keys", "share.mismatch:"+protoName[proto], "receiver %d: sk*g2 != pk", r.idx)
			return
		}
	}
	out.Probes["crafted_dealing_accepted"]++
}
