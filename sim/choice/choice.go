// Package choice is the single source of nondeterminism of every simulated run.
//
// Every decision of an engine (parameters of the run, which event happens next, which
// fault is injected, which task runs) is drawn with Choose(n,label). In search mode the
// value comes from a SplitMix64/xoshiro256** generator seeded from (VERIF_SEED, property,
// run index) and is appended to the log; in replay mode it is read back from a log.
// Value 0 is by convention always the "simplest" alternative (honest, in order, no fault,
// do not switch), so that shrinking towards zero simplifies the run.
//
// The package never reads a clock and never draws in logging paths.
package choice

import (
	"crypto/sha256"
	"encoding/binary"
)

// Entry is one recorded decision.
type Entry struct {
	V int    `json:"v"`
	N int    `json:"n"`
	L string `json:"l"`
}

const maxLog = 4 << 20

// Src is a choice stream.
type Src struct {
	s        [4]uint64
	replay   []Entry
	pos      int
	isReplay bool
	// Log holds all decisions actually taken (after clamping in replay mode).
	Log []Entry
	// Diverged counts label mismatches during replay (the run changed shape).
	Diverged int
	// PastEnd counts draws beyond the end of a replayed log (answered with 0).
	PastEnd int
	// NoLog disables recording (used for bulk sub-streams).
	noLog bool
	// Sink, if set, receives every logged decision at the moment it is taken (single-run
	// mode streams the log to a file so that it survives a run that kills the process).
	Sink func(Entry)
}

func splitmix(x *uint64) uint64 {
	*x += 0x9e3779b97f4a7c15
	z := *x
	z = (z ^ (z >> 30)) * 0xbf58476d1ce4e5b9
	z = (z ^ (z >> 27)) * 0x94d049bb133111eb
	return z ^ (z >> 31)
}

// SeedFor derives the per-run seed from the global seed, a property/engine name and the run index.
func SeedFor(global uint64, name string, run int) uint64 {
	h := sha256.New()
	var b [16]byte
	binary.LittleEndian.PutUint64(b[:8], global)
	binary.LittleEndian.PutUint64(b[8:], uint64(run))
	h.Write(b[:])
	h.Write([]byte(name))
	return binary.LittleEndian.Uint64(h.Sum(nil)[:8])
}

// New returns a searching stream.
func New(seed uint64) *Src {
	c := &Src{}
	x := seed
	for i := range c.s {
		c.s[i] = splitmix(&x)
	}
	return c
}

// Replay returns a stream that reads decisions from log; draws past its end return 0.
func Replay(log []Entry) *Src {
	return &Src{replay: log, isReplay: true}
}

func rotl(x uint64, k uint) uint64 { return (x << k) | (x >> (64 - k)) }

func (c *Src) next() uint64 {
	s := &c.s
	r := rotl(s[1]*5, 7) * 9
	t := s[1] << 17
	s[2] ^= s[0]
	s[3] ^= s[1]
	s[1] ^= s[2]
	s[0] ^= s[3]
	s[2] ^= t
	s[3] = rotl(s[3], 45)
	return r
}

// Choose returns a value in [0,n). n<=1 returns 0 without consuming anything.
func (c *Src) Choose(n int, label string) int {
	if n <= 1 {
		return 0
	}
	var v int
	if c.isReplay {
		if c.pos < len(c.replay) {
			e := c.replay[c.pos]
			c.pos++
			if e.L != label {
				c.Diverged++
			}
			v = e.V
			if v < 0 {
				v = 0
			}
			if v >= n {
				v = v % n
			}
		} else {
			c.PastEnd++
			v = 0
		}
	} else {
		v = int(c.next() % uint64(n))
	}
	if !c.noLog {
		if len(c.Log) >= maxLog {
			// a loop of the harness that only a random draw can end (under replay all remaining
			// draws may be 0): fail loudly instead of eating the machine's memory
			panic("choice: more than 4 million decisions in one run (harness loop that does not terminate under replay?), last label " + label)
		}
		c.Log = append(c.Log, Entry{V: v, N: n, L: label})
		if c.Sink != nil {
			c.Sink(Entry{V: v, N: n, L: label})
		}
	}
	return v
}

// Bool returns true with probability num/den; false is value 0.
func (c *Src) Bool(num, den int, label string) bool {
	if num <= 0 {
		return false
	}
	return c.Choose(den, label) >= den-num
}

// Weighted picks an index with the given integer weights; index 0 should be the simplest.
// It is encoded as one Choose over the total weight, mapped so that value 0 is index 0
// (provided weights[0] > 0).
func (c *Src) Weighted(weights []int, label string) int {
	tot := 0
	for _, w := range weights {
		tot += w
	}
	if tot <= 0 {
		return 0
	}
	v := c.Choose(tot, label)
	for i, w := range weights {
		if v < w {
			return i
		}
		v -= w
	}
	return len(weights) - 1
}

// Range returns a value in [lo,hi].
func (c *Src) Range(lo, hi int, label string) int {
	if hi <= lo {
		return lo
	}
	return lo + c.Choose(hi-lo+1, label)
}

// Sub draws one 31-bit value and returns an unlogged generator derived from it, for bulk
// data (random scalars, seeds, message bytes). Shrinking the one logged value to 0 makes
// the bulk data a fixed simple stream.
func (c *Src) Sub(label string) *Src {
	v := c.Choose(1<<31-1, label)
	s := New(uint64(v)*0x9e3779b97f4a7c15 + 12345)
	s.noLog = true
	return s
}

// Bytes fills k bytes from an unlogged stream (use on a Sub stream).
func (c *Src) Bytes(k int) []byte {
	out := make([]byte, k)
	for i := 0; i < k; i += 8 {
		var b [8]byte
		var x uint64
		if c.isReplay {
			x = 0
		} else {
			x = c.next()
		}
		binary.LittleEndian.PutUint64(b[:], x)
		copy(out[i:], b[:])
	}
	return out
}

// Uint64 draws from an unlogged stream.
func (c *Src) Uint64() uint64 {
	if c.isReplay {
		return 0
	}
	return c.next()
}

// Intn on an unlogged sub-stream.
func (c *Src) Intn(n int) int {
	if n <= 1 {
		return 0
	}
	return int(c.Uint64() % uint64(n))
}

// Used returns the number of replayed entries consumed.
func (c *Src) Used() int { return c.pos }
