package choice

// Shrink minimises a failing choice log by delta debugging.
//
// test re-executes the run under Replay(candidate) and reports whether the same violation
// class persists, together with the log the run actually used (normalised: clamped values,
// past-the-end zeros appended, unused tail dropped). maxExec caps the number of
// re-executions. The returned log is the smallest found that still fails.
func Shrink(log []Entry, maxExec int, test func([]Entry) (bool, []Entry)) ([]Entry, int) {
	best := append([]Entry(nil), log...)
	execs := 0
	try := func(cand []Entry) bool {
		if execs >= maxExec {
			return false
		}
		execs++
		ok, used := test(cand)
		if !ok {
			return false
		}
		// accept only if not larger (by length, then by sum of values)
		used = TrimZeros(used)
		if weight(used) < weight(best) {
			best = append([]Entry(nil), used...)
			return true
		}
		return false
	}
	// first normalise
	best = TrimZeros(best)
	improved := true
	for improved && execs < maxExec {
		improved = false
		// pass 1: truncate the tail (past-the-end draws become 0)
		for cut := len(best) / 2; cut >= 1 && execs < maxExec; cut /= 2 {
			for len(best) > cut {
				if !try(best[:len(best)-cut]) {
					break
				}
				improved = true
			}
		}
		// pass 2: delete chunks
		for size := len(best) / 2; size >= 1 && execs < maxExec; size /= 2 {
			for i := 0; i+size <= len(best) && execs < maxExec; {
				cand := append(append([]Entry(nil), best[:i]...), best[i+size:]...)
				if try(cand) {
					improved = true
				} else {
					i += size
				}
			}
		}
		// pass 3: zero chunks
		for size := len(best) / 2; size >= 1 && execs < maxExec; size /= 2 {
			for i := 0; i+size <= len(best) && execs < maxExec; i += size {
				nz := false
				for j := i; j < i+size; j++ {
					if best[j].V != 0 {
						nz = true
					}
				}
				if !nz {
					continue
				}
				cand := append([]Entry(nil), best...)
				for j := i; j < i+size; j++ {
					cand[j].V = 0
				}
				if try(cand) {
					improved = true
				}
			}
		}
		// pass 4: lower individual values (halve, then decrement)
		for i := 0; i < len(best) && execs < maxExec; i++ {
			for best[i].V > 0 && execs < maxExec {
				cand := append([]Entry(nil), best...)
				cand[i].V = best[i].V / 2
				if try(cand) {
					improved = true
					if i >= len(best) {
						break
					}
					continue
				}
				cand = append([]Entry(nil), best...)
				cand[i].V = best[i].V - 1
				if cand[i].V != best[i].V/2 && try(cand) {
					improved = true
					if i >= len(best) {
						break
					}
					continue
				}
				break
			}
		}
	}
	return best, execs
}

func weight(l []Entry) int {
	w := 0
	for _, e := range l {
		w += 1000
		if e.V > 0 {
			w += 10
			v := e.V
			for v > 0 {
				w++
				v >>= 1
			}
		}
	}
	return w
}

// TrimZeros drops trailing zero entries (they are the default of past-the-end draws).
func TrimZeros(l []Entry) []Entry {
	n := len(l)
	for n > 0 && l[n-1].V == 0 {
		n--
	}
	return l[:n]
}
