// Package xcfg produces a deterministic transcript of the module's deterministic operations
// over seeded inputs (property C20). The same program is built from /repo's working tree in
// several build configurations; every section hash must be identical in all of them.
package xcfg

import (
	"crypto/sha256"
	"encoding/hex"
	"encoding/json"
	"fmt"
	"io"
	"os"

	crypto "github.com/onflow/crypto"
	"github.com/onflow/crypto/hash"
	"github.com/onflow/crypto/random"

	"verifsim/choice"
	"verifsim/curve"
	"verifsim/dkgsim"
	"verifsim/engine"
	"verifsim/thrnet"
)

type section struct {
	h   interface{ Write([]byte) (int, error) }
	sum func() string
	n   int
}

type tr struct {
	out map[string]string
	cur string
	buf []byte
	ops map[string]int
}

func (t *tr) begin(name string) { t.cur = name; t.buf = t.buf[:0] }
func (t *tr) add(label string, b []byte) {
	t.buf = append(t.buf, []byte(label)...)
	t.buf = append(t.buf, 0)
	t.buf = append(t.buf, b...)
	t.buf = append(t.buf, 1)
	t.ops[t.cur]++
}
func (t *tr) addf(label string, f string, a ...any) { t.add(label, []byte(fmt.Sprintf(f, a...))) }
func (t *tr) end() {
	s := sha256.Sum256(t.buf)
	t.out[t.cur] = hex.EncodeToString(s[:])
}

// Sig is an ECDSA signature exported by the default build and verified by the others.
type Sig struct {
	Alg  int    `json:"alg"`
	Seed []byte `json:"seed"`
	Msg  []byte `json:"msg"`
	Sig  []byte `json:"sig"`
}

// Transcript runs k seeds per section. bls=false skips everything that needs the BLS12-381 layer.
func Transcript(seed uint64, k int, bls bool, sigIn, sigOut string) (map[string]string, map[string]int) {
	t := &tr{out: map[string]string{}, ops: map[string]int{}}
	var sigs []Sig
	if sigIn != "" {
		b, err := os.ReadFile(sigIn)
		if err == nil {
			_ = json.Unmarshal(b, &sigs)
		}
	}
	var exported []Sig
	for i := 0; i < k; i++ {
		rnd := choice.New(choice.SeedFor(seed, "xcfg", i))
		// a panic inside a section is part of that section's transcript (it then differs from
		// the configurations that do not panic), never a reason for the program to die
		guard := func(f func()) {
			defer func() {
				if p := recover(); p != nil {
					t.addf("PANIC", "%v", p)
					t.end()
				}
			}()
			f()
		}
		guard(func() { t.hashes(i, rnd) })
		guard(func() { t.prg(i, rnd) })
		guard(func() { exported = append(exported, t.ecdsa(i, rnd, sigs)...) })
		if bls {
			guard(func() { t.bls(i, rnd) })
			// simulated multi-party runs: every message byte, callback and key is in the event hash
			for _, p := range []struct {
				e    engine.Engine
				prop string
				mode string
			}{{dkgsim.Engine{}, "C07", ""}, {dkgsim.Engine{}, "C08", ""}, {thrnet.Engine{}, "C06", ""},
				// worlds whose verdict hinges on the subgroup checks of every vector point, and a craft world
				{dkgsim.Engine{}, "C08", "fermat"}, {dkgsim.Engine{}, "C08", "torsion"}, {dkgsim.Engine{}, "C07", "craft"},
				// participant indices up to 253 (small-exponent multiplication over the whole byte range) and mid-size groups
				{dkgsim.Engine{}, "C07", "wide"}, {dkgsim.Engine{}, "C07", "mid"}} {
				if (p.mode == "wide" || p.mode == "mid") && i%4 != 0 {
					continue // the large worlds are expensive: every fourth seed
				}
				name := fmt.Sprintf("%s-%s%s/%d", p.e.Name(), p.prop, p.mode, i)
				o, _ := engine.RunOne(p.e, seed, i, engine.Opt{Property: p.prop, Tier: "quick", Mode: p.mode})
				t.begin(name)
				t.add("eventhash", []byte(o.EventHash))
				t.addf("viols", "%d", len(o.Viols))
				t.end()
			}
		}
	}
	if sigOut != "" {
		b, _ := json.Marshal(exported)
		_ = os.WriteFile(sigOut, b, 0o644)
	}
	return t.out, t.ops
}

func (t *tr) hashes(i int, rnd *choice.Src) {
	t.begin(fmt.Sprintf("hash/%d", i))
	sizes := []int{0, 1, 7, 8, 63, 64, 71, 72, 103, 104, 135, 136, 137, 167, 168, 169, 200, 271, 272, 273, 1000, 4097}
	hs := []func() hash.Hasher{hash.NewSHA2_256, hash.NewSHA2_384, hash.NewSHA3_256, hash.NewSHA3_384, hash.NewKeccak_256}
	for hi, mk := range hs {
		for _, sz := range sizes {
			data := rnd.Bytes(sz)
			h := mk()
			t.add(fmt.Sprintf("h%d.compute.%d", hi, sz), h.ComputeHash(data))
			// the same bytes at an address that is not 8-byte aligned, one-shot and as a first
			// Write with nothing buffered (the full-block fast path on a misaligned pointer)
			shift := 1 + rnd.Intn(7)
			mis := append(make([]byte, shift), data...)[shift:]
			t.add(fmt.Sprintf("h%d.compute.misaligned.%d", hi, sz), mk().ComputeHash(mis))
			hm := mk()
			_, _ = hm.Write(mis)
			t.add(fmt.Sprintf("h%d.sum.misaligned.%d", hi, sz), hm.SumHash())
			// incremental writes with seeded chunking, unaligned offsets
			h.Reset()
			for off := 0; off < len(data); {
				c := 1 + rnd.Intn(len(data)-off)
				_, _ = h.Write(data[off : off+c])
				off += c
			}
			t.add(fmt.Sprintf("h%d.sum.%d", hi, sz), h.SumHash())
			_, _ = h.Write([]byte{1, 2, 3})
			t.add(fmt.Sprintf("h%d.sum2.%d", hi, sz), h.SumHash())
		}
	}
	// one long-lived hasher per algorithm, reused for messages of different lengths: a shorter
	// message after a longer one, Reset in the middle of a block, writes that straddle block
	// boundaries, SumHash followed by more writes, ComputeHash in between
	reuse := func(label string, h hash.Hasher) {
		// digests are also HELD (not copied) and written to the transcript only after the hasher
		// has been used further: a digest that is a view of the hasher's state changes meanwhile
		var held []hash.Hash
		defer func() {
			for k, d := range held {
				t.add(fmt.Sprintf("%s.held.%d", label, k), d)
			}
		}()
		for step := 0; step < 28; step++ {
			switch rnd.Intn(6) {
			case 0:
				h.Reset()
				t.addf(label+".reset", "%d", step)
			case 1:
				_, _ = h.Write(rnd.Bytes(sizes[rnd.Intn(len(sizes)-2)]))
			case 2:
				d := h.SumHash()
				held = append(held, d)
				t.add(fmt.Sprintf("%s.sum.%d", label, step), d)
			case 3:
				d := h.ComputeHash(rnd.Bytes(rnd.Intn(300)))
				held = append(held, d)
				t.add(fmt.Sprintf("%s.compute.%d", label, step), d)
			case 4:
				// io.WriteString uses a WriteString method when the hasher has one
				_, _ = io.WriteString(h, string(rnd.Bytes(1+rnd.Intn(150))))
			default:
				_, _ = h.Write(rnd.Bytes(1 + rnd.Intn(20)))
			}
		}
		t.add(label+".final", h.SumHash())
	}
	for hi, mk := range hs {
		reuse(fmt.Sprintf("h%d.reuse", hi), mk())
	}
	if k, err := hash.NewKMAC_128(rnd.Bytes(20), rnd.Bytes(5), 32+rnd.Intn(200)); err == nil {
		reuse("kmac.reuse", k)
	}
	for _, osz := range []int{1, 16, 32, 128, 167, 168, 169, 500} {
		key := rnd.Bytes(16 + rnd.Intn(40))
		cust := rnd.Bytes(rnd.Intn(30))
		k, err := hash.NewKMAC_128(key, cust, osz)
		if err != nil {
			t.addf("kmac.err", "%v", err != nil)
			continue
		}
		for _, sz := range []int{0, 1, 167, 168, 169, 1000} {
			data := rnd.Bytes(sz)
			t.add(fmt.Sprintf("kmac.%d.%d", osz, sz), k.ComputeHash(data))
			off := rnd.Intn(sz + 1)
			_, _ = k.Write(data[:off])
			_, _ = k.Write(data[off:])
			t.add(fmt.Sprintf("kmac.sum.%d.%d", osz, sz), k.SumHash())
			k.Reset()
		}
	}
	t.end()
}

func (t *tr) prg(i int, rnd *choice.Src) {
	t.begin(fmt.Sprintf("prg/%d", i))
	p, err := random.NewChacha20PRG(rnd.Bytes(32), rnd.Bytes(rnd.Intn(13)))
	if err != nil {
		t.addf("err", "%v", err)
		t.end()
		return
	}
	for _, sz := range []int{0, 1, 63, 64, 65, 127, 128, 129, 1000, 5000} {
		b := make([]byte, sz)
		p.Read(b)
		t.add("read", b)
		t.addf("uintn", "%d", p.UintN(uint64(1+rnd.Intn(1<<30))))
		perm, _ := p.Permutation(10 + rnd.Intn(20))
		t.addf("perm", "%v", perm)
		sub, _ := p.SubPermutation(30, 7)
		t.addf("subperm", "%v", sub)
		st := p.Store()
		t.add("store", st)
		q, err := random.RestoreChacha20PRG(st)
		if err == nil {
			b2 := make([]byte, 70)
			q.Read(b2)
			t.add("restored", b2)
		}
	}
	t.end()
}

func (t *tr) ecdsa(i int, rnd *choice.Src, sigs []Sig) []Sig {
	t.begin(fmt.Sprintf("ecdsa/%d", i))
	var out []Sig
	for ai, alg := range []crypto.SigningAlgorithm{crypto.ECDSAP256, crypto.ECDSASecp256k1} {
		seed := rnd.Bytes(32 + rnd.Intn(32))
		sk, err := crypto.GeneratePrivateKey(alg, seed)
		if err != nil {
			t.addf("gen.err", "%v", err)
			continue
		}
		pk := sk.PublicKey()
		t.add("sk", sk.Encode())
		t.add("pk", pk.Encode())
		t.add("pkc", pk.EncodeCompressed())
		if d, err := crypto.DecodePublicKeyCompressed(alg, pk.EncodeCompressed()); err == nil {
			t.addf("pkc.roundtrip", "%v", d.Equals(pk))
		}
		if d, err := crypto.DecodePrivateKey(alg, sk.Encode()); err == nil {
			t.addf("sk.roundtrip", "%v", d.Equals(sk))
		}
		msg := rnd.Bytes(rnd.Intn(100))
		for hi, h := range []hash.Hasher{hash.NewSHA2_256(), hash.NewSHA3_256(), hash.NewSHA3_384(), hash.NewKeccak_256()} {
			s, err := sk.Sign(msg, h)
			if err != nil {
				t.addf("sign.err", "%v", err)
				continue
			}
			ok, err := pk.Verify(s, msg, h)
			t.addf("verify.own", "%v %v", ok, err)
			bad := append([]byte(nil), s...)
			bad[len(bad)/2] ^= 1
			ok, err = pk.Verify(bad, msg, h)
			t.addf("verify.flipped", "%v %v", ok, err)
			ok, err = pk.Verify(s, append(msg, 1), h)
			t.addf("verify.othermsg", "%v %v", ok, err)
			if hi == 1 {
				out = append(out, Sig{Alg: ai, Seed: seed, Msg: msg, Sig: s})
			}
		}
		// format check and garbage
		for _, g := range [][]byte{nil, {1}, make([]byte, 64), rnd.Bytes(64), rnd.Bytes(63)} {
			ok, err := pk.Verify(g, msg, hash.NewSHA3_256())
			t.addf("verify.garbage", "%v %v", ok, err)
			fc, err := crypto.SignatureFormatCheck(alg, g)
			t.addf("formatcheck", "%v %v", fc, err)
		}
	}
	// error paths of the non-BLS functionality and their classification by the exported error
	// predicates that exist in every build (a predicate that panics in one configuration only
	// is a result that depends on the configuration)
	classify := func(label string, err error) {
		r := func() (s string) {
			defer func() {
				if p := recover(); p != nil {
					s = fmt.Sprintf("PANIC while classifying: %v", p)
				}
			}()
			return fmt.Sprintf("nil=%v input=%v nilhasher=%v hashersize=%v", err == nil, crypto.IsInvalidInputsError(err), crypto.IsNilHasherError(err), crypto.IsInvalidHasherSizeError(err))
		}()
		t.addf("errclass."+label, "%s", r)
	}
	for _, alg := range []crypto.SigningAlgorithm{crypto.ECDSAP256, crypto.ECDSASecp256k1} {
		_, err := crypto.GeneratePrivateKey(alg, rnd.Bytes(31))
		classify("gen.shortseed", err)
		_, err = crypto.DecodePrivateKey(alg, rnd.Bytes(31))
		classify("decode.sk.len", err)
		_, err = crypto.DecodePrivateKey(alg, make([]byte, 32))
		classify("decode.sk.zero", err)
		_, err = crypto.DecodePublicKey(alg, rnd.Bytes(64))
		classify("decode.pk.random", err)
		_, err = crypto.DecodePublicKey(alg, rnd.Bytes(10))
		classify("decode.pk.len", err)
		_, err = crypto.DecodePublicKeyCompressed(alg, rnd.Bytes(33))
		classify("decode.pkc.random", err)
		sk, err := crypto.GeneratePrivateKey(alg, rnd.Bytes(40))
		classify("gen.ok", err)
		if err == nil {
			_, err = sk.Sign([]byte("m"), nil)
			classify("sign.nilhasher", err)
			if k, e := hash.NewKMAC_128(rnd.Bytes(16), nil, 16); e == nil {
				_, err = sk.Sign([]byte("m"), k)
				classify("sign.shorthasher", err)
				_, err = sk.PublicKey().Verify(make([]byte, 64), []byte("m"), k)
				classify("verify.shorthasher", err)
			}
			_, err = sk.PublicKey().Verify(make([]byte, 64), []byte("m"), nil)
			classify("verify.nilhasher", err)
			_, err = sk.PublicKey().Verify(rnd.Bytes(63), []byte("m"), hash.NewSHA2_256())
			classify("verify.badlen", err)
		}
		_, err = crypto.SignatureFormatCheck(alg, rnd.Bytes(65))
		classify("formatcheck.len", err)
	}
	_, err := hash.NewKMAC_128(rnd.Bytes(15), nil, 32)
	classify("kmac.shortkey", err)
	_, err = random.NewChacha20PRG(rnd.Bytes(31), nil)
	classify("prg.shortseed", err)
	_, err = random.NewChacha20PRG(rnd.Bytes(32), rnd.Bytes(13))
	classify("prg.longcustomizer", err)
	_, err = random.RestoreChacha20PRG(rnd.Bytes(51))
	classify("prg.restore.len", err)
	if p, e := random.NewChacha20PRG(rnd.Bytes(32), nil); e == nil {
		_, err = p.Permutation(-1)
		classify("prg.perm.negative", err)
		_, err = p.SubPermutation(3, 4)
		classify("prg.subperm.m>n", err)
	}
	classify("nil", nil)
	// names of the enumerations (all builds know all algorithms by name)
	str := func(label string, f func() string) {
		r := func() (s string) {
			defer func() {
				if p := recover(); p != nil {
					s = "PANIC"
				}
			}()
			return f()
		}()
		t.addf("string."+label, "%s", r)
	}
	for _, a := range []crypto.SigningAlgorithm{crypto.UnknownSigningAlgorithm, crypto.BLSBLS12381, crypto.ECDSAP256, crypto.ECDSASecp256k1} {
		a := a
		str(fmt.Sprintf("sigalgo.%d", int(a)), a.String)
	}
	for _, a := range []hash.HashingAlgorithm{hash.UnknownHashingAlgorithm, hash.SHA2_256, hash.SHA2_384, hash.SHA3_256, hash.SHA3_384, hash.KMAC128, hash.Keccak_256} {
		a := a
		str(fmt.Sprintf("hashalgo.%d", int(a)), a.String)
	}
	for _, alg := range []crypto.SigningAlgorithm{crypto.ECDSAP256, crypto.ECDSASecp256k1} {
		if sk, err := crypto.GeneratePrivateKey(alg, rnd.Bytes(32)); err == nil {
			str("sk.algorithm", func() string { return sk.Algorithm().String() })
			str("pk.string", func() string { return sk.PublicKey().String() })
			str("sk.size", func() string { return fmt.Sprint(sk.Size(), sk.PublicKey().Size()) })
		}
	}
	// signatures exported by the default build: every configuration must accept them
	for _, s := range sigs {
		alg := []crypto.SigningAlgorithm{crypto.ECDSAP256, crypto.ECDSASecp256k1}[s.Alg]
		sk, err := crypto.GeneratePrivateKey(alg, s.Seed)
		if err != nil {
			continue
		}
		ok, err := sk.PublicKey().Verify(s.Sig, s.Msg, hash.NewSHA3_256())
		t.addf("verify.exported", "%v %v", ok, err)
	}
	t.end()
	return out
}

func (t *tr) bls(i int, rnd *choice.Src) {
	t.begin(fmt.Sprintf("bls/%d", i))
	tag := fmt.Sprintf("xcfg-%d", i)
	h := crypto.NewExpandMsgXOFKMAC128(tag)
	var sks []crypto.PrivateKey
	var pks []crypto.PublicKey
	var sigs []crypto.Signature
	msg := rnd.Bytes(rnd.Intn(200))
	for k := 0; k < 4; k++ {
		sk, err := crypto.GeneratePrivateKey(crypto.BLSBLS12381, rnd.Bytes(32+rnd.Intn(100)))
		if err != nil {
			t.addf("gen.err", "%v", err)
			continue
		}
		sks = append(sks, sk)
		pks = append(pks, sk.PublicKey())
		t.add("sk", sk.Encode())
		t.add("pk", sk.PublicKey().Encode())
		s, err := sk.Sign(msg, h)
		t.add("sig", s)
		t.addf("sig.err", "%v", err)
		sigs = append(sigs, s)
		ok, err := sk.PublicKey().Verify(s, msg, h)
		t.addf("verify", "%v %v", ok, err)
		ok, err = sk.PublicKey().Verify(s, append(msg, 0), h)
		t.addf("verify.othermsg", "%v %v", ok, err)
		pop, err := crypto.BLSGeneratePOP(sk)
		t.add("pop", pop)
		ok, err = crypto.BLSVerifyPOP(sk.PublicKey(), pop)
		t.addf("pop.verify", "%v %v", ok, err)
		ok, err = crypto.BLSVerifyPOP(sk.PublicKey(), s)
		t.addf("pop.verify.sig", "%v %v", ok, err)
		sp, err := crypto.SPOCKProve(sk, msg, h)
		t.add("spock", sp)
		ok, err = crypto.SPOCKVerifyAgainstData(sk.PublicKey(), sp, msg, h)
		t.addf("spock.verify", "%v %v", ok, err)
		if d, err := crypto.DecodePublicKey(crypto.BLSBLS12381, sk.PublicKey().Encode()); err == nil {
			t.addf("pk.roundtrip", "%v", d.Equals(sk.PublicKey()))
		}
		if d, err := crypto.DecodePrivateKey(crypto.BLSBLS12381, sk.Encode()); err == nil {
			t.addf("sk.roundtrip", "%v", d.Equals(sk))
		}
	}
	if len(sks) == 4 {
		agg, err := crypto.AggregateBLSSignatures(sigs)
		t.add("aggsig", agg)
		t.addf("aggsig.err", "%v", err)
		apk, err := crypto.AggregateBLSPublicKeys(pks)
		if err == nil {
			t.add("aggpk", apk.Encode())
			rem, err := crypto.RemoveBLSPublicKeys(apk, pks[:2])
			if err == nil {
				t.add("rempk", rem.Encode())
			}
		}
		ask, err := crypto.AggregateBLSPrivateKeys(sks)
		if err == nil {
			t.add("aggsk", ask.Encode())
		}
		ok, err := crypto.VerifyBLSSignatureOneMessage(pks, agg, msg, h)
		t.addf("verify.one", "%v %v", ok, err)
		ok, err = crypto.VerifyBLSSignatureOneMessage(pks[:3], agg, msg, h)
		t.addf("verify.one.bad", "%v %v", ok, err)
		var msgs [][]byte
		var hs []hash.Hasher
		var many []crypto.Signature
		for k := range sks {
			m := rnd.Bytes(10 + k%2) // two distinct messages among four keys
			if k >= 2 {
				m = msgs[k-2]
			}
			msgs = append(msgs, m)
			hs = append(hs, h)
			s, _ := sks[k].Sign(m, h)
			many = append(many, s)
		}
		aggm, _ := crypto.AggregateBLSSignatures(many)
		ok, err = crypto.VerifyBLSSignatureManyMessages(pks, aggm, msgs, hs)
		t.addf("verify.many", "%v %v", ok, err)
		bad := append([]crypto.Signature(nil), sigs...)
		bad[1+rnd.Intn(3)] = many[0]
		res, err := crypto.BatchVerifyBLSSignaturesOneMessage(pks, bad, msg, h)
		t.addf("verify.batch", "%v %v", res, err)
		// every pattern of valid / invalid positions for 4 signatures, seeded patterns for 5..9
		// (all shapes of the aggregation tree, pruning decisions included)
		wrong, _ := sks[0].Sign(append([]byte("other"), msg...), h)
		for pat := 0; pat < 16; pat++ {
			l := append([]crypto.Signature(nil), sigs...)
			for k := 0; k < 4; k++ {
				if pat&(1<<k) != 0 {
					l[k] = wrong
				}
			}
			res, err := crypto.BatchVerifyBLSSignaturesOneMessage(pks, l, msg, h)
			t.addf(fmt.Sprintf("verify.batch.pattern.%d", pat), "%v %v", res, err)
		}
		for rep := 0; rep < 6; rep++ {
			cnt := 5 + rnd.Intn(5)
			var ks []crypto.PublicKey
			var l []crypto.Signature
			for k := 0; k < cnt; k++ {
				ks = append(ks, pks[k%4])
				if rnd.Intn(3) == 0 {
					l = append(l, wrong)
				} else {
					l = append(l, sigs[k%4])
				}
			}
			res, err := crypto.BatchVerifyBLSSignaturesOneMessage(ks, l, msg, h)
			t.addf(fmt.Sprintf("verify.batch.seeded.%d", cnt), "%v %v", res, err)
		}
		// many key generations: every derived scalar is canonical (< r) in every build
		for k := 0; k < 40; k++ {
			sk, err := crypto.GeneratePrivateKey(crypto.BLSBLS12381, rnd.Bytes(32))
			if err == nil {
				t.add("keygen.sk", sk.Encode())
				_, derr := crypto.DecodePrivateKey(crypto.BLSBLS12381, sk.Encode())
				t.addf("keygen.roundtrip", "%v", derr == nil)
			}
		}
		ok, err = crypto.SPOCKVerify(pks[0], mustSpock(sks[0], msg, h), pks[1], mustSpock(sks[1], msg, h))
		t.addf("spock.verify2", "%v %v", ok, err)
	}
	// edge cases of the group law: doubling (equal operands), running sum equal to the next
	// element, opposite points, identity
	if len(sks) == 4 {
		neg := func(sig crypto.Signature) crypto.Signature {
			n := append([]byte(nil), sig...)
			n[0] ^= 0x20
			return n
		}
		s01, _ := crypto.AggregateBLSSignatures(sigs[:2])
		idSig := make([]byte, 48)
		idSig[0] = 0xC0
		for k, l := range [][]crypto.Signature{
			{sigs[0], sigs[0]}, {sigs[0], sigs[0], sigs[0]}, {sigs[0], sigs[1], s01}, {sigs[0], sigs[1], s01, sigs[2]},
			{sigs[0], neg(sigs[0])}, {sigs[0], neg(sigs[0]), sigs[1]}, {idSig, sigs[0]}, {sigs[0], idSig, sigs[0]}, {idSig, idSig},
		} {
			a, err := crypto.AggregateBLSSignatures(l)
			t.add(fmt.Sprintf("edge.aggsig.%d", k), a)
			t.addf(fmt.Sprintf("edge.aggsig.err.%d", k), "%v", err)
		}
		p01, _ := crypto.AggregateBLSPublicKeys(pks[:2])
		id := crypto.IdentityBLSPublicKey()
		for k, l := range [][]crypto.PublicKey{
			{pks[0], pks[0]}, {pks[0], pks[0], pks[0]}, {pks[0], pks[1], p01}, {pks[0], pks[1], p01, pks[2]}, {id, pks[0]}, {pks[0], id, pks[0]}, {id, id},
		} {
			a, err := crypto.AggregateBLSPublicKeys(l)
			if err == nil {
				t.add(fmt.Sprintf("edge.aggpk.%d", k), a.Encode())
			}
			t.addf(fmt.Sprintf("edge.aggpk.err.%d", k), "%v", err)
		}
		for k, l := range [][]crypto.PublicKey{{pks[0]}, {pks[0], pks[0]}, {p01}, {pks[1], pks[0]}, {}} {
			a, err := crypto.RemoveBLSPublicKeys(p01, l)
			if err == nil {
				t.add(fmt.Sprintf("edge.rempk.%d", k), a.Encode())
			}
			t.addf(fmt.Sprintf("edge.rempk.err.%d", k), "%v", err)
		}
		if a, err := crypto.AggregateBLSPrivateKeys([]crypto.PrivateKey{sks[0], sks[0], sks[1]}); err == nil {
			t.add("edge.aggsk", a.Encode())
		}
		s00, _ := crypto.AggregateBLSSignatures([]crypto.Signature{sigs[0], sigs[0]})
		ok, err := crypto.VerifyBLSSignatureOneMessage([]crypto.PublicKey{pks[0], pks[0]}, s00, msg, h)
		t.addf("edge.verify.dupkeys", "%v %v", ok, err)
		res, err := crypto.BatchVerifyBLSSignaturesOneMessage([]crypto.PublicKey{pks[0], pks[0], pks[1]}, []crypto.Signature{sigs[0], sigs[0], sigs[1]}, msg, h)
		t.addf("edge.batch.dups", "%v %v", res, err)
		ok, err = crypto.VerifyBLSSignatureManyMessages([]crypto.PublicKey{pks[0], pks[0]}, s00, [][]byte{msg, msg}, []hash.Hasher{h, h})
		t.addf("edge.many.dups", "%v %v", ok, err)
	}
	// decoding of invalid points and scalars
	badpks := [][]byte{curve.G2NonSubgroup(rnd), curve.G2OffCurve(rnd), curve.G2XTooLarge(rnd), make([]byte, 96), rnd.Bytes(96)}
	if len(pks) > 0 {
		if b, err := curve.G2PlusTorsion(pks[0].Encode(), i); err == nil {
			badpks = append(badpks, b)
		}
	}
	for k, b := range badpks {
		_, err := crypto.DecodePublicKey(crypto.BLSBLS12381, b)
		t.addf(fmt.Sprintf("decode.badpk.%d", k), "%v", err != nil)
		t.add(fmt.Sprintf("decode.badpk.input-after.%d", k), b) // the caller's buffer after a refused decode
	}
	for k, b := range [][]byte{curve.G1NonSubgroup(rnd), curve.G1OffCurve(rnd), curve.G1XTooLarge(rnd), make([]byte, 48)} {
		if len(pks) > 0 {
			ok, err := pks[0].Verify(b, msg, h)
			t.addf(fmt.Sprintf("verify.badsig.%d", k), "%v %v", ok, err)
			t.add(fmt.Sprintf("verify.badsig.input-after.%d", k), b)
			// the same key OBJECT and the same bytes on both sides of a SPoCK verification
			ok, err = crypto.SPOCKVerify(pks[0], b, pks[0], b)
			t.addf(fmt.Sprintf("spock.same-object.badproof.%d", k), "%v %v", ok, err)
		}
	}
	if len(pks) > 0 && len(sigs) > 0 {
		if b, err := curve.G1PlusTorsion(sigs[0], i, 1); err == nil {
			ok, err := crypto.SPOCKVerify(pks[0], b, pks[0], b)
			t.addf("spock.same-object.torsion", "%v %v", ok, err)
			ok, err = pks[0].Verify(b, msg, h)
			t.addf("verify.torsion", "%v %v", ok, err)
		}
	}
	// boundary values of the coordinate and scalar range checks: exactly p, p-1, p+1; r, r-1, r+1
	for k, d := range []int64{-1, 0, 1} {
		g1 := curve.G1XNearP(d)
		agg, err := crypto.AggregateBLSSignatures([]crypto.Signature{g1})
		t.add(fmt.Sprintf("boundary.g1.agg.%d", k), agg)
		t.addf(fmt.Sprintf("boundary.g1.agg.err.%d", k), "%v", err != nil)
		if len(pks) > 0 {
			ok, err := pks[0].Verify(g1, msg, h)
			t.addf(fmt.Sprintf("boundary.g1.verify.%d", k), "%v %v", ok, err != nil)
			t.add(fmt.Sprintf("boundary.g1.input-after.%d", k), g1)
		}
		for c := 0; c < 2; c++ {
			g2b := curve.G2XNearP(d, c)
			_, err := crypto.DecodePublicKey(crypto.BLSBLS12381, g2b)
			t.addf(fmt.Sprintf("boundary.g2.decode.%d.%d", k, c), "%v", err != nil)
			t.add(fmt.Sprintf("boundary.g2.input-after.%d.%d", k, c), g2b)
		}
		_, err = crypto.DecodePrivateKey(crypto.BLSBLS12381, curve.ScalarNearR(d))
		t.addf(fmt.Sprintf("boundary.sk.decode.%d", k), "%v", err != nil)
	}
	_, err := crypto.DecodePrivateKey(crypto.BLSBLS12381, curve.ScalarTooLarge(rnd))
	t.addf("decode.badsk", "%v", err != nil)
	// threshold key generation and reconstruction
	n := 3 + rnd.Intn(8)
	th := 1 + rnd.Intn(n-1)
	tsk, tpk, gpk, err := crypto.BLSThresholdKeyGen(n, th, rnd.Bytes(32))
	if err == nil {
		t.add("thr.gpk", gpk.Encode())
		var sh []crypto.Signature
		var who []int
		for k := range tsk {
			t.add("thr.sk", tsk[k].Encode())
			t.add("thr.pk", tpk[k].Encode())
			s, _ := tsk[k].Sign(msg, h)
			sh = append(sh, s)
			who = append(who, k)
		}
		// a seeded subset/order
		for k := len(who) - 1; k > 0; k-- {
			j := rnd.Intn(k + 1)
			who[k], who[j] = who[j], who[k]
			sh[k], sh[j] = sh[j], sh[k]
		}
		g, err := crypto.BLSReconstructThresholdSignature(n, th, sh, who)
		t.add("thr.sig", g)
		t.addf("thr.err", "%v", err)
		// consecutive reconstructions that share a prefix of the signer list, differ in the last
		// signer, or use the same set in another order (anything memoised between calls shows here)
		if n >= th+2 {
			sh2 := append(append([]crypto.Signature(nil), sh[:th]...), sh[th+1])
			who2 := append(append([]int(nil), who[:th]...), who[th+1])
			g2, err := crypto.BLSReconstructThresholdSignature(n, th, sh2, who2)
			t.add("thr.sig.lastdiffers", g2)
			t.addf("thr.err", "%v", err)
			ok, _ := gpk.Verify(g2, msg, h)
			t.addf("thr.verify", "%v", ok)
		}
		sh3, who3 := append([]crypto.Signature(nil), sh[:th+1]...), append([]int(nil), who[:th+1]...)
		sh3[0], sh3[th], who3[0], who3[th] = sh3[th], sh3[0], who3[th], who3[0]
		g3, err := crypto.BLSReconstructThresholdSignature(n, th, sh3, who3)
		t.add("thr.sig.reordered", g3)
		t.addf("thr.err", "%v", err)
		// shares the stateless call does not validate: points of E1 outside G1 (random, and a
		// genuine share shifted by a small-order point), the identity, a negated share. Whatever
		// the combination is, it is the same in every build.
		ident := make([]byte, 48)
		ident[0] = 0xC0
		neg := append([]byte(nil), sh[0]...)
		neg[0] ^= 0x20
		bad := [][]byte{curve.G1NonSubgroup(rnd), ident, neg}
		if b, err := curve.G1PlusTorsion(sh[0], rnd.Intn(len(curve.SmallPrimesE1)), 1); err == nil {
			bad = append(bad, b)
		}
		for k, b := range bad {
			for _, pos := range []int{0, th} {
				sh4 := append([]crypto.Signature(nil), sh[:th+1]...)
				sh4[pos] = b
				g4, err := crypto.BLSReconstructThresholdSignature(n, th, sh4, who[:th+1])
				t.add(fmt.Sprintf("thr.sig.unvalidated-share.%d.%d", k, pos), g4)
				t.addf("thr.err", "%v", err)
			}
		}
	}
	// many distinct messages and keys (more pairings than one Miller-loop batch)
	{
		var ks []crypto.PublicKey
		var ms [][]byte
		var hs []hash.Hasher
		var ss []crypto.Signature
		for k := 0; k < 9; k++ {
			sk, err := crypto.GeneratePrivateKey(crypto.BLSBLS12381, rnd.Bytes(32))
			if err != nil {
				continue
			}
			m := rnd.Bytes(5 + k)
			s, _ := sk.Sign(m, h)
			ks, ms, hs, ss = append(ks, sk.PublicKey()), append(ms, m), append(hs, h), append(ss, s)
		}
		if agg, err := crypto.AggregateBLSSignatures(ss); err == nil {
			for _, cnt := range []int{7, 8, 9} {
				a, _ := crypto.AggregateBLSSignatures(ss[:cnt])
				ok, err := crypto.VerifyBLSSignatureManyMessages(ks[:cnt], a, ms[:cnt], hs[:cnt])
				t.addf(fmt.Sprintf("many.%d", cnt), "%v %v", ok, err)
			}
			ok, err := crypto.VerifyBLSSignatureManyMessages(ks[:8], agg, ms[:8], hs[:8])
			t.addf("many.wrongagg", "%v %v", ok, err)
		}
	}
	// a large group with high signer indices and more than 8 shares (limb batching of the Lagrange code)
	// thresholds from 9 to n-1, signer sets: contiguous from the top / bottom / middle, low indices plus
	// the highest one, evenly spread, reversed
	{
		bn := 254
		bt := []int{9 + rnd.Intn(4), 21 + rnd.Intn(20), 64, 100 + rnd.Intn(100), 30 + rnd.Intn(8)}[i%5]
		if i == 1 {
			bt = 253
		}
		bsk, _, bgpk, err := crypto.BLSThresholdKeyGen(bn, bt, rnd.Bytes(32))
		if err == nil {
			t.add("bigthr.gpk", bgpk.Encode())
			sets := [][]int{}
			for _, first := range []int{bn - bt - 1, 0, 130} {
				var who []int
				for k := 0; k <= bt; k++ {
					who = append(who, (first+k)%bn)
				}
				sets = append(sets, who)
			}
			lowPlusTop := []int{}
			for k := 0; k < bt; k++ {
				lowPlusTop = append(lowPlusTop, k)
			}
			sets = append(sets, append(lowPlusTop, 253))
			var spread, rev []int
			for k := 0; k <= bt; k++ {
				spread = append(spread, (k*(bn-1))/max(bt, 1))
				rev = append(rev, bt-k)
			}
			if bt < 200 {
				sets = append(sets, spread)
			}
			sets = append(sets, rev)
			for si, who := range sets {
				var sh []crypto.Signature
				for _, idx := range who {
					s, _ := bsk[idx].Sign(msg, h)
					sh = append(sh, s)
				}
				g, err := crypto.BLSReconstructThresholdSignature(bn, bt, sh, who)
				t.add(fmt.Sprintf("bigthr.sig.%d.%d", bt, si), g)
				t.addf("bigthr.err", "%v", err)
				ok, _ := bgpk.Verify(g, msg, h)
				t.addf("bigthr.verify", "%v", ok)
				if bt > 120 && si >= 1 {
					break // the largest thresholds: two signer sets are enough
				}
			}
			t.add("bigthr.sk253", bsk[253].Encode())
			t.add("bigthr.sk127", bsk[127].Encode())
		}
	}
	t.end()
}

func mustSpock(sk crypto.PrivateKey, msg []byte, h hash.Hasher) crypto.Signature {
	s, _ := crypto.SPOCKProve(sk, msg, h)
	return s
}
