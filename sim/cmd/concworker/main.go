// concworker runs the engines that need the instrumented copy of the library and the race
// detector (C18, C19). Build with -race against a scratch copy processed by cmd/instr.
package main

import (
	"verifsim/engine"
	"verifsim/roconc"
	"verifsim/thrconc"
)

func main() {
	engine.Main(map[string]engine.Engine{
		"thrconc": thrconc.Engine{},
		"roconc":  roconc.Engine{},
	})
}
