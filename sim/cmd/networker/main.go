// networker runs the engines that need no source instrumentation (C06-C10, C14, C20).
package main

import (
	"verifsim/dkgsim"
	"verifsim/engine"
	"verifsim/prgcrash"
	"verifsim/thrnet"
)

func main() {
	engine.Main(map[string]engine.Engine{
		"prgcrash": prgcrash.Engine{},
		"dkgsim":   dkgsim.Engine{},
		"thrnet":   thrnet.Engine{},
	})
}
