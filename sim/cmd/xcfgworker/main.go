// xcfgworker prints the deterministic transcript of package xcfg as JSON (property C20).
package main

import (
	"encoding/json"
	"flag"
	"os"

	"verifsim/xcfg"
)

func main() {
	seed := flag.Uint64("seed", 1, "VERIF_SEED")
	k := flag.Int("k", 8, "seeds per section")
	nobls := flag.Bool("nobls", false, "skip everything that needs the BLS12-381 layer (no_cgo build)")
	sigIn := flag.String("sigin", "", "ECDSA signatures exported by another configuration")
	sigOut := flag.String("sigout", "", "export ECDSA signatures")
	out := flag.String("out", "", "output file")
	flag.Parse()
	secs, ops := xcfg.Transcript(*seed, *k, !*nobls, *sigIn, *sigOut)
	b, _ := json.MarshalIndent(map[string]any{"sections": secs, "ops": ops}, "", " ")
	if *out == "" {
		os.Stdout.Write(b)
		return
	}
	if err := os.WriteFile(*out, b, 0o644); err != nil {
		os.Exit(2)
	}
}
