// instr inserts a scheduler yield point before every statement of the non-test Go files of
// the given packages of a SCRATCH COPY of onflow/crypto and replaces sync.(RW)Mutex by the
// simulated locks. Insertion is textual at the statements' byte offsets, so line numbers,
// cgo preambles and build constraints are preserved.
package main

import (
	"bytes"
	"flag"
	"fmt"
	"go/ast"
	"go/build"
	"go/parser"
	"go/token"
	"go/types"
	"os"
	"path/filepath"
	"sort"
	"strings"
)

func main() {
	root := flag.String("root", "", "root of the scratch copy")
	pkgs := flag.String("pkgs", ".", "comma separated package directories relative to root")
	flag.Parse()
	total, files, locks := 0, 0, 0
	for _, p := range strings.Split(*pkgs, ",") {
		dir := filepath.Join(*root, p)
		ents, err := os.ReadDir(dir)
		if err != nil {
			fmt.Println(err)
			os.Exit(1)
		}
		mapRanges = findMapRanges(dir, ents)
		for _, e := range ents {
			name := e.Name()
			if e.IsDir() || !strings.HasSuffix(name, ".go") || strings.HasSuffix(name, "_test.go") {
				continue
			}
			n, l, err := instrument(filepath.Join(dir, name))
			if err != nil {
				fmt.Println(name, err)
				os.Exit(1)
			}
			total += n
			locks += l
			files++
		}
	}
	fmt.Printf("instrumented files=%d sites=%d lockdecls=%d\n", files, total, locks)
}

// mapRanges holds, per file path, the byte offsets [start,end) of the range expressions that are
// maps with an ordered key type: the iteration order of a Go map is randomised per execution,
// which (with a yield before every statement and early exits from such loops) makes the number of
// scheduler steps, and so the whole schedule, differ between two executions of one seed. The
// instrumenter routes these loops through simrt.Ordered, where the order is the sorted one or,
// under the scheduler, a permutation drawn from the choice stream.
var mapRanges map[string][][2]int

func findMapRanges(dir string, ents []os.DirEntry) map[string][][2]int {
	out := map[string][][2]int{}
	fset := token.NewFileSet()
	var files []*ast.File
	ctx := build.Default
	ctx.CgoEnabled = true
	for _, e := range ents {
		name := e.Name()
		if e.IsDir() || !strings.HasSuffix(name, ".go") || strings.HasSuffix(name, "_test.go") {
			continue
		}
		if ok, err := ctx.MatchFile(dir, name); err != nil || !ok {
			continue
		}
		f, err := parser.ParseFile(fset, filepath.Join(dir, name), nil, 0)
		if err != nil {
			continue
		}
		files = append(files, f)
	}
	info := &types.Info{Types: map[ast.Expr]types.TypeAndValue{}}
	conf := types.Config{FakeImportC: true, Error: func(error) {}, Importer: nil}
	_, _ = conf.Check(dir, fset, files, info) // errors (unresolved imports) are expected and ignored
	for _, f := range files {
		ast.Inspect(f, func(n ast.Node) bool {
			rs, ok := n.(*ast.RangeStmt)
			if !ok {
				return true
			}
			tv, ok := info.Types[rs.X]
			if !ok || tv.Type == nil {
				return true
			}
			m, ok := tv.Type.Underlying().(*types.Map)
			if !ok {
				return true
			}
			if b, ok := m.Key().Underlying().(*types.Basic); !ok || b.Info()&(types.IsOrdered) == 0 {
				return true
			}
			pos, end := fset.Position(rs.X.Pos()), fset.Position(rs.X.End())
			out[pos.Filename] = append(out[pos.Filename], [2]int{pos.Offset, end.Offset})
			return true
		})
	}
	return out
}

func instrument(path string) (int, int, error) {
	src, err := os.ReadFile(path)
	if err != nil {
		return 0, 0, err
	}
	fset := token.NewFileSet()
	f, err := parser.ParseFile(fset, path, src, parser.ParseComments)
	if err != nil {
		return 0, 0, err
	}
	type ins struct {
		off  int
		text string
		del  int // bytes of the source dropped at off (after the inserted text)
	}
	var list []ins
	nyields := 0
	add := func(stmts []ast.Stmt) {
		for _, s := range stmts {
			switch s.(type) {
			case *ast.CaseClause, *ast.CommClause:
				continue
			}
			pos := fset.Position(s.Pos())
			list = append(list, ins{off: pos.Offset, text: fmt.Sprintf("simrt.Y(%d);", pos.Line)})
			nyields++
		}
	}
	// pointers handed to C: (*C.T)(expr) -> (*C.T)(simrt.CPtr(expr)), and for expr = &x[0]
	// (*C.T)(simrt.CSliceP(x, &x[0])): the simulator reports what C does to Go memory to the
	// race detector (see simrt.CPtr)
	isCPtrConv := func(c *ast.CallExpr) bool {
		if len(c.Args) != 1 {
			return false
		}
		pe, ok := c.Fun.(*ast.ParenExpr)
		if !ok {
			return false
		}
		st, ok := pe.X.(*ast.StarExpr)
		if !ok {
			return false
		}
		se, ok := st.X.(*ast.SelectorExpr)
		if !ok {
			return false
		}
		id, ok := se.X.(*ast.Ident)
		return ok && id.Name == "C"
	}
	pure := func(e ast.Expr) bool {
		ok := true
		ast.Inspect(e, func(n ast.Node) bool {
			switch n.(type) {
			case *ast.CallExpr, *ast.FuncLit, *ast.UnaryExpr:
				ok = false
			}
			return ok
		})
		return ok
	}
	cptrs := 0
	nmaps := 0
	wrapC := func(c *ast.CallExpr) {
		e := c.Args[0]
		a, b := fset.Position(e.Pos()).Offset, fset.Position(e.End()).Offset
		if bytes.Contains(src[a:b], []byte("unsafe.")) {
			return
		}
		if u, ok := e.(*ast.UnaryExpr); ok && u.Op == token.AND {
			if ix, ok := u.X.(*ast.IndexExpr); ok {
				if lit, ok := ix.Index.(*ast.BasicLit); ok && lit.Value == "0" && pure(ix.X) {
					xa, xb := fset.Position(ix.X.Pos()).Offset, fset.Position(ix.X.End()).Offset
					list = append(list, ins{off: a, text: "simrt.CSliceP(" + string(src[xa:xb]) + ", "}, ins{off: b, text: ")"})
					cptrs++
					return
				}
			}
		}
		list = append(list, ins{off: a, text: "simrt.CPtr("}, ins{off: b, text: ")"})
		cptrs++
	}
	hasCPtr := func(n ast.Node) bool {
		found := false
		ast.Inspect(n, func(m ast.Node) bool {
			if c, ok := m.(*ast.CallExpr); ok && isCPtrConv(c) {
				found = true
			}
			return !found
		})
		return found
	}
	flushAfter := func(stmts []ast.Stmt) {
		for _, s := range stmts {
			switch s.(type) {
			case *ast.ExprStmt, *ast.AssignStmt:
				if hasCPtr(s) {
					list = append(list, ins{off: fset.Position(s.End()).Offset, text: "; simrt.CFlush()"})
				}
			}
		}
	}
	// channel operations outside `select`: ch <- v, <-ch, v, ok := <-ch, close(ch) go through the
	// scheduler (simrt.SendTo / Recv / Recv2 / Close); the communication clauses of a select
	// statement are left alone
	nchans := 0
	skip := map[ast.Node]bool{}
	recv2 := map[ast.Node]bool{}
	unparen := func(e ast.Expr) ast.Expr {
		for {
			p, ok := e.(*ast.ParenExpr)
			if !ok {
				return e
			}
			e = p.X
		}
	}
	closeShadowed := false
	ast.Inspect(f, func(n ast.Node) bool {
		switch x := n.(type) {
		case *ast.CommClause:
			if x.Comm != nil {
				ast.Inspect(x.Comm, func(m ast.Node) bool {
					if m != nil {
						skip[m] = true
					}
					return true
				})
			}
		case *ast.AssignStmt:
			if len(x.Lhs) == 2 && len(x.Rhs) == 1 {
				if u, ok := unparen(x.Rhs[0]).(*ast.UnaryExpr); ok && u.Op == token.ARROW {
					recv2[u] = true
				}
			}
		case *ast.ValueSpec:
			if len(x.Names) == 2 && len(x.Values) == 1 {
				if u, ok := unparen(x.Values[0]).(*ast.UnaryExpr); ok && u.Op == token.ARROW {
					recv2[u] = true
				}
			}
		case *ast.FuncDecl:
			if x.Name.Name == "close" && x.Recv == nil {
				closeShadowed = true
			}
		case *ast.Ident:
			if x.Name == "close" && x.Obj != nil && x.Obj.Kind != ast.Bad && x.Obj.Decl != nil {
				closeShadowed = true
			}
		}
		return true
	})
	ast.Inspect(f, func(n ast.Node) bool {
		switch x := n.(type) {
		case *ast.SendStmt:
			if !skip[x] {
				list = append(list,
					ins{off: fset.Position(x.Chan.Pos()).Offset, text: "simrt.SendTo("},
					ins{off: fset.Position(x.Arrow).Offset, text: ")(", del: 2},
					ins{off: fset.Position(x.Value.End()).Offset, text: ")"})
				nchans++
			}
		case *ast.UnaryExpr:
			if x.Op == token.ARROW && !skip[x] {
				fn := "simrt.Recv("
				if recv2[x] {
					fn = "simrt.Recv2("
				}
				list = append(list,
					ins{off: fset.Position(x.Pos()).Offset, text: fn, del: 2},
					ins{off: fset.Position(x.End()).Offset, text: ")"})
				nchans++
			}
		case *ast.CallExpr:
			if id, ok := x.Fun.(*ast.Ident); ok && id.Name == "close" && len(x.Args) == 1 && !closeShadowed && !skip[x] {
				list = append(list, ins{off: fset.Position(id.Pos()).Offset, text: "simrt.Close", del: 5})
				nchans++
			}
			if isCPtrConv(x) {
				wrapC(x)
			}
		case *ast.BlockStmt:
			flushAfter(x.List)
			add(x.List)
		case *ast.CaseClause:
			flushAfter(x.Body)
			add(x.Body)
		case *ast.CommClause:
			flushAfter(x.Body)
			add(x.Body)
		}
		return true
	})
	for _, r := range mapRanges[path] {
		list = append(list, ins{off: r[0], text: "simrt.Ordered("}, ins{off: r[1], text: ")"})
		nmaps++
	}
	// package clause: add the import on the same line
	pkgEnd := fset.Position(f.Name.End()).Offset
	list = append(list, ins{off: pkgEnd, text: `; import simrt "github.com/onflow/crypto/simrt"`})
	sort.SliceStable(list, func(i, j int) bool { return list[i].off < list[j].off })
	var out bytes.Buffer
	last := 0
	for _, in := range list {
		out.Write(src[last:in.off])
		out.WriteString(in.text)
		last = in.off + in.del
	}
	out.Write(src[last:])
	out.WriteString("\nvar _ = simrt.Y\n")
	res := out.Bytes()
	locks := bytes.Count(res, []byte("sync.RWMutex")) + bytes.Count(res, []byte("sync.Mutex")) + bytes.Count(res, []byte("sync.Once"))
	if locks > 0 {
		res = bytes.ReplaceAll(res, []byte("sync.RWMutex"), []byte("simrt.RWMutex"))
		res = bytes.ReplaceAll(res, []byte("sync.Mutex"), []byte("simrt.Mutex"))
		res = bytes.ReplaceAll(res, []byte("sync.Once"), []byte("simrt.Once"))
		res = append(res, []byte("\nvar _ sync.Locker\n")...)
	}
	_, _ = nmaps, nchans
	return nyields, locks, os.WriteFile(path, res, 0o644)
}
